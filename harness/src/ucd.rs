//! Own parsers for the pinned UCD snapshot in /verif/data and the IANA CSV.
//! Deliberately independent of ucd-parse and precis-tools.

use std::collections::HashMap;
use std::fs;
use std::path::{Path, PathBuf};

pub const NCP: usize = 0x110000;

pub fn data_dir() -> PathBuf {
    PathBuf::from(std::env::var("VERIF_DATA").unwrap_or_else(|_| "/verif/data".to_string()))
}

pub const BIDI_NAMES: [&str; 23] = [
    "L", "R", "AL", "AN", "EN", "ES", "CS", "ET", "ON", "BN", "NSM", "B", "S", "WS", "LRE", "LRO", "RLE", "RLO", "PDF",
    "LRI", "RLI", "FSI", "PDI",
];
pub const B_L: u8 = 0;
pub const B_R: u8 = 1;
pub const B_AL: u8 = 2;
pub const B_AN: u8 = 3;
pub const B_EN: u8 = 4;
pub const B_ES: u8 = 5;
pub const B_CS: u8 = 6;
pub const B_ET: u8 = 7;
pub const B_ON: u8 = 8;
pub const B_BN: u8 = 9;
pub const B_NSM: u8 = 10;

pub fn bidi_index(name: &str) -> Option<u8> {
    BIDI_NAMES.iter().position(|n| *n == name).map(|i| i as u8)
}

pub struct Bitset(Vec<u64>);
impl Bitset {
    pub fn new() -> Self {
        Bitset(vec![0; NCP / 64])
    }
    pub fn set(&mut self, cp: u32) {
        if (cp as usize) < NCP {
            self.0[cp as usize / 64] |= 1 << (cp % 64);
        }
    }
    #[inline]
    pub fn has(&self, cp: u32) -> bool {
        (cp as usize) < NCP && (self.0[cp as usize / 64] >> (cp % 64)) & 1 == 1
    }
    pub fn count(&self) -> usize {
        self.0.iter().map(|w| w.count_ones() as usize).sum()
    }
    pub fn iter(&self) -> impl Iterator<Item = u32> + '_ {
        (0..NCP as u32).filter(move |c| self.has(*c))
    }
}

/// One parsed UnicodeData.txt line (before range expansion)
#[derive(Clone, Debug)]
pub struct UdLine {
    pub cp: u32,
    pub name: String,
    pub gc: String,
    pub ccc: u8,
    pub bidi: String,
    pub decomp: String,
    pub rest: Vec<String>, // fields 6..14 verbatim
}

pub fn parse_unicode_data_lines(text: &str) -> Vec<UdLine> {
    let mut v = Vec::new();
    for line in text.lines() {
        if line.trim().is_empty() {
            continue;
        }
        let f: Vec<&str> = line.split(';').collect();
        assert!(f.len() == 15, "UnicodeData line with {} fields: {}", f.len(), line);
        v.push(UdLine {
            cp: u32::from_str_radix(f[0], 16).expect("cp"),
            name: f[1].to_string(),
            gc: f[2].to_string(),
            ccc: f[3].parse().expect("ccc"),
            bidi: f[4].to_string(),
            decomp: f[5].to_string(),
            rest: f[6..].iter().map(|s| s.to_string()).collect(),
        });
    }
    v
}

/// Per code point view of a UnicodeData.txt file
pub struct UnicodeData {
    pub assigned: Bitset,
    pub gc: Vec<[u8; 2]>, // "Cn" for unlisted
    pub ccc: Vec<u8>,
    pub bidi: Vec<u8>, // index in BIDI_NAMES; 255 for unlisted
    pub decomp: HashMap<u32, (Option<String>, Vec<u32>)>,
    pub lower: HashMap<u32, u32>,
    pub lines: Vec<UdLine>,
}

impl UnicodeData {
    pub fn load(path: &Path) -> UnicodeData {
        let text = fs::read_to_string(path).unwrap_or_else(|e| panic!("cannot read {}: {}", path.display(), e));
        UnicodeData::from_text(&text)
    }
    pub fn from_text(text: &str) -> UnicodeData {
        let lines = parse_unicode_data_lines(text);
        let mut d = UnicodeData {
            assigned: Bitset::new(),
            gc: vec![*b"Cn"; NCP],
            ccc: vec![0; NCP],
            bidi: vec![255; NCP],
            decomp: HashMap::new(),
            lower: HashMap::new(),
            lines: Vec::new(),
        };
        let mut first: Option<u32> = None;
        for l in &lines {
            let (lo, hi) = if l.name.ends_with(", First>") {
                first = Some(l.cp);
                continue;
            } else if l.name.ends_with(", Last>") {
                (first.take().expect("Last without First"), l.cp)
            } else {
                (l.cp, l.cp)
            };
            let gc = [l.gc.as_bytes()[0], l.gc.as_bytes()[1]];
            let b = bidi_index(&l.bidi).unwrap_or_else(|| panic!("unknown bidi class {}", l.bidi));
            for cp in lo..=hi {
                d.assigned.set(cp);
                d.gc[cp as usize] = gc;
                d.ccc[cp as usize] = l.ccc;
                d.bidi[cp as usize] = b;
            }
            if !l.decomp.is_empty() {
                let mut tag = None;
                let mut map = Vec::new();
                for tok in l.decomp.split_whitespace() {
                    if tok.starts_with('<') {
                        tag = Some(tok.trim_matches(|c| c == '<' || c == '>').to_string());
                    } else {
                        map.push(u32::from_str_radix(tok, 16).expect("decomp cp"));
                    }
                }
                d.decomp.insert(l.cp, (tag, map));
            }
            // simple lowercase mapping = field 13 => rest[7]
            if let Some(lc) = l.rest.get(7) {
                if !lc.is_empty() {
                    d.lower.insert(l.cp, u32::from_str_radix(lc, 16).expect("lower"));
                }
            }
        }
        d.lines = lines;
        d
    }
    pub fn gc_is(&self, cp: u32, names: &[&str]) -> bool {
        if cp as usize >= NCP {
            return false;
        }
        let g = self.gc[cp as usize];
        names.iter().any(|n| n.as_bytes() == g)
    }
    pub fn gc_str(&self, cp: u32) -> String {
        if cp as usize >= NCP {
            return "??".into();
        }
        String::from_utf8_lossy(&self.gc[cp as usize]).to_string()
    }
}

/// "XXXX[..YYYY] ; Value # comment" files => value -> ranges
pub fn parse_prop_file(path: &Path) -> HashMap<String, Vec<(u32, u32)>> {
    let text = fs::read_to_string(path).unwrap_or_else(|e| panic!("cannot read {}: {}", path.display(), e));
    parse_prop_text(&text)
}

pub fn parse_prop_text(text: &str) -> HashMap<String, Vec<(u32, u32)>> {
    let mut m: HashMap<String, Vec<(u32, u32)>> = HashMap::new();
    for line in text.lines() {
        let line = line.split('#').next().unwrap().trim();
        if line.is_empty() {
            continue;
        }
        let mut p = line.split(';');
        let r = p.next().unwrap().trim();
        let v = p.next().expect("property value").trim().to_string();
        let (lo, hi) = match r.split_once("..") {
            Some((a, b)) => (u32::from_str_radix(a, 16).unwrap(), u32::from_str_radix(b, 16).unwrap()),
            None => {
                let a = u32::from_str_radix(r, 16).unwrap();
                (a, a)
            }
        };
        m.entry(v).or_default().push((lo, hi));
    }
    m
}

pub fn bitset_of(m: &HashMap<String, Vec<(u32, u32)>>, key: &str) -> Bitset {
    let mut b = Bitset::new();
    if let Some(v) = m.get(key) {
        for (lo, hi) in v {
            for cp in *lo..=*hi {
                b.set(cp);
            }
        }
    }
    b
}

/// Unicode 6.3.0 view needed by RFC 8264 section 8/9 and RFC 5892 Appendix A
pub struct Data6 {
    pub ud: UnicodeData,
    pub join_control: Bitset,
    pub nonchar: Bitset,
    pub default_ignorable: Bitset,
    pub hst_lvt: Bitset,
    pub greek: Bitset,
    pub hebrew: Bitset,
    pub hiragana: Bitset,
    pub katakana: Bitset,
    pub han: Bitset,
    pub jt_d: Bitset,
    pub jt_l: Bitset,
    pub jt_r: Bitset,
    pub jt_t: Bitset,
    pub virama: Bitset,
}

impl Data6 {
    pub fn load() -> Data6 {
        let d = data_dir().join("ucd6");
        let ud = UnicodeData::load(&d.join("UnicodeData.txt"));
        let pl = parse_prop_file(&d.join("PropList.txt"));
        let dcp = parse_prop_file(&d.join("DerivedCoreProperties.txt"));
        let hst = parse_prop_file(&d.join("HangulSyllableType.txt"));
        let sc = parse_prop_file(&d.join("Scripts.txt"));
        let jt = parse_prop_file(&d.join("extracted/DerivedJoiningType.txt"));
        let mut hst_lvt = Bitset::new();
        for k in ["L", "V", "T"] {
            for c in bitset_of(&hst, k).iter() {
                hst_lvt.set(c);
            }
        }
        let mut virama = Bitset::new();
        for cp in 0..NCP as u32 {
            if ud.ccc[cp as usize] == 9 {
                virama.set(cp);
            }
        }
        Data6 {
            join_control: bitset_of(&pl, "Join_Control"),
            nonchar: bitset_of(&pl, "Noncharacter_Code_Point"),
            default_ignorable: bitset_of(&dcp, "Default_Ignorable_Code_Point"),
            hst_lvt,
            greek: bitset_of(&sc, "Greek"),
            hebrew: bitset_of(&sc, "Hebrew"),
            hiragana: bitset_of(&sc, "Hiragana"),
            katakana: bitset_of(&sc, "Katakana"),
            han: bitset_of(&sc, "Han"),
            jt_d: bitset_of(&jt, "D"),
            jt_l: bitset_of(&jt, "L"),
            jt_r: bitset_of(&jt, "R"),
            jt_t: bitset_of(&jt, "T"),
            virama,
            ud,
        }
    }
}

/// Unicode 16.0.0 view: bidi classes, Zs, width mapping, simple lowercase
pub struct Data16 {
    pub ud: UnicodeData,
    pub zs: Vec<u32>,
    pub width: HashMap<u32, u32>,
}

impl Data16 {
    pub fn load() -> Data16 {
        let ud = UnicodeData::load(&data_dir().join("ucd16/UnicodeData.txt"));
        let mut zs = Vec::new();
        for cp in 0..NCP as u32 {
            if ud.gc[cp as usize] == *b"Zs" {
                zs.push(cp);
            }
        }
        let mut width = HashMap::new();
        for (cp, (tag, map)) in &ud.decomp {
            if let Some(t) = tag {
                if t == "wide" || t == "narrow" {
                    assert!(map.len() == 1, "wide/narrow mapping of U+{:04X} is not a single code point", cp);
                    width.insert(*cp, map[0]);
                }
            }
        }
        Data16 { ud, zs, width }
    }
    pub fn is_zs(&self, c: char) -> bool {
        self.ud.gc[c as usize] == *b"Zs"
    }
    pub fn bidi(&self, c: char) -> u8 {
        self.ud.bidi[c as usize]
    }
}

// ------------------------------------------------------------ IANA CSV ----

#[derive(Clone, Copy, PartialEq, Eq, Debug, Hash)]
pub enum CsvProp {
    PValid,
    FreePVal,
    ContextJ,
    ContextO,
    Disallowed,
    IdDis,
    Unassigned,
}

pub const CSV_PROP_NAMES: [(&str, CsvProp); 7] = [
    ("PVALID", CsvProp::PValid),
    ("FREE_PVAL", CsvProp::FreePVal),
    ("CONTEXTJ", CsvProp::ContextJ),
    ("CONTEXTO", CsvProp::ContextO),
    ("DISALLOWED", CsvProp::Disallowed),
    ("ID_DIS", CsvProp::IdDis),
    ("UNASSIGNED", CsvProp::Unassigned),
];

#[derive(Clone, Debug, PartialEq, Eq)]
pub struct CsvRow {
    pub lo: u32,
    pub hi: u32,
    pub is_range: bool,
    pub p1: CsvProp,
    pub p2: Option<CsvProp>,
    pub desc: String,
}

fn csv_prop(s: &str) -> CsvProp {
    CSV_PROP_NAMES.iter().find(|(n, _)| *n == s).unwrap_or_else(|| panic!("csv prop {}", s)).1
}

pub fn parse_csv(path: &Path) -> Vec<CsvRow> {
    let text = fs::read_to_string(path).unwrap_or_else(|e| panic!("cannot read {}: {}", path.display(), e));
    let mut v = Vec::new();
    for (i, raw) in text.split('\n').enumerate() {
        if i == 0 || raw.is_empty() {
            continue;
        }
        let line = raw.strip_suffix('\r').unwrap_or(raw);
        let a = line.find(',').expect("comma 1");
        let b = a + 1 + line[a + 1..].find(',').expect("comma 2");
        let cpf = &line[..a];
        let pf = &line[a + 1..b];
        let desc = &line[b + 1..];
        let (lo, hi, is_range) = match cpf.split_once('-') {
            Some((x, y)) => (u32::from_str_radix(x, 16).unwrap(), u32::from_str_radix(y, 16).unwrap(), true),
            None => {
                let x = u32::from_str_radix(cpf, 16).unwrap();
                (x, x, false)
            }
        };
        let (p1, p2) = match pf.split_once(" or ") {
            Some((x, y)) => (csv_prop(x.trim()), Some(csv_prop(y.trim()))),
            None => (csv_prop(pf), None),
        };
        v.push(CsvRow { lo, hi, is_range, p1, p2, desc: desc.to_string() });
    }
    v
}

pub fn csv_path() -> PathBuf {
    data_dir().join("csv/precis-tables-6.3.0.csv")
}
