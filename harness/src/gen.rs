//! Workload generation: alphabets computed from the pinned snapshot and std
//! (never from the code under test), random strings, variants, families.

use crate::refmodel::{self, Abs};
use crate::ucd::*;
use crate::util::Rng;
use std::collections::HashMap;
use unicode_normalization::UnicodeNormalization;

pub struct Pools {
    pub ascii_lower: Vec<char>,
    pub ascii_upper: Vec<char>,
    pub ascii_digit: Vec<char>,
    pub ascii_punct: Vec<char>,
    pub zs: Vec<char>,
    pub width: Vec<char>,
    /// characters with a lowercase mapping different from themselves
    pub cased: Vec<char>,
    pub titlecase: Vec<char>,
    pub cherokee: Vec<char>,
    pub nfc_diff: Vec<char>,
    pub nfkc_diff: Vec<char>,
    /// characters that are not Zs but whose NFKC contains a Zs character
    pub space_intro: Vec<char>,
    pub marks: Vec<char>,
    /// (base, mark) pairs that compose canonically
    pub compose_pairs: Vec<(char, char)>,
    pub hangul: Vec<char>,
    pub viramas: Vec<char>,
    pub jt_d: Vec<char>,
    pub jt_l: Vec<char>,
    pub jt_r: Vec<char>,
    pub jt_t: Vec<char>,
    pub greek: Vec<char>,
    pub hebrew: Vec<char>,
    pub kana_han: Vec<char>,
    pub arabic_digits: Vec<char>,
    pub ext_arabic_digits: Vec<char>,
    pub context: Vec<char>,
    /// assigned (16.0.0) members per bidi class index
    pub bidi: Vec<Vec<char>>,
    /// PVALID (6.3.0) members per bidi class index - usable in usernames
    pub bidi_pvalid: Vec<Vec<char>>,
    pub pvalid_letters: Vec<char>,
    pub pvalid_upper: Vec<char>,
    pub free_pval: Vec<char>,
    pub disallowed: Vec<char>,
    pub unassigned6: Vec<char>,
    pub controls: Vec<char>,
    pub four_byte: Vec<char>,
    /// upper-case base + mark where lower(NFC(x)) != NFC(lower(x))
    pub case_nfc_interact: Vec<String>,
    /// derived property (abstract) per code point by the reference
    pub abs: Vec<Abs>,
}

fn take_spread(v: Vec<char>, n: usize) -> Vec<char> {
    if v.len() <= n {
        return v;
    }
    let step = v.len() as f64 / n as f64;
    (0..n).map(|i| v[(i as f64 * step) as usize]).collect()
}

impl Pools {
    pub fn build(d6: &Data6, d16: &Data16) -> Pools {
        let mut abs = Vec::with_capacity(NCP);
        for cp in 0..NCP as u32 {
            abs.push(refmodel::derived(d6, cp).0);
        }
        let chars = || (0..NCP as u32).filter_map(char::from_u32);
        let is_pvalid = |c: char| abs[c as usize] == Abs::PValid;
        let mut p = Pools {
            ascii_lower: ('a'..='z').collect(),
            ascii_upper: ('A'..='Z').collect(),
            ascii_digit: ('0'..='9').collect(),
            ascii_punct: "!\"#$%&'()*+,-./:;<=>?@[\\]^_`{|}~".chars().collect(),
            zs: d16.zs.iter().filter_map(|c| char::from_u32(*c)).collect(),
            width: {
                let mut v: Vec<char> = d16.width.keys().filter_map(|c| char::from_u32(*c)).collect();
                v.sort();
                v
            },
            cased: chars().filter(|c| !c.to_lowercase().eq(std::iter::once(*c))).collect(),
            titlecase: chars().filter(|c| d16.ud.gc[*c as usize] == *b"Lt").collect(),
            cherokee: (0x13A0..=0x13F5u32).filter_map(char::from_u32).collect(),
            nfc_diff: chars().filter(|c| !std::iter::once(*c).nfc().eq(std::iter::once(*c))).collect(),
            nfkc_diff: chars().filter(|c| refmodel::has_compat(*c as u32)).collect(),
            space_intro: Vec::new(),
            marks: Vec::new(),
            compose_pairs: Vec::new(),
            hangul: Vec::new(),
            viramas: d6.virama.iter().filter_map(char::from_u32).collect(),
            jt_d: take_spread(d6.jt_d.iter().filter_map(char::from_u32).collect(), 60),
            jt_l: d6.jt_l.iter().filter_map(char::from_u32).collect(),
            jt_r: take_spread(d6.jt_r.iter().filter_map(char::from_u32).collect(), 40),
            jt_t: take_spread(d6.jt_t.iter().filter_map(char::from_u32).filter(|c| is_pvalid(*c)).collect(), 60),
            greek: take_spread(d6.greek.iter().filter_map(char::from_u32).filter(|c| is_pvalid(*c)).collect(), 40),
            hebrew: take_spread(d6.hebrew.iter().filter_map(char::from_u32).filter(|c| is_pvalid(*c)).collect(), 40),
            kana_han: Vec::new(),
            arabic_digits: (0x0660..=0x0669u32).filter_map(char::from_u32).collect(),
            ext_arabic_digits: (0x06F0..=0x06F9u32).filter_map(char::from_u32).collect(),
            context: Vec::new(),
            bidi: vec![Vec::new(); 23],
            bidi_pvalid: vec![Vec::new(); 23],
            pvalid_letters: Vec::new(),
            pvalid_upper: Vec::new(),
            free_pval: Vec::new(),
            disallowed: Vec::new(),
            unassigned6: Vec::new(),
            controls: Vec::new(),
            four_byte: Vec::new(),
            case_nfc_interact: Vec::new(),
            abs: Vec::new(),
        };
        p.space_intro = p
            .nfkc_diff
            .iter()
            .copied()
            .filter(|c| !d16.is_zs(*c) && std::iter::once(*c).nfkc().any(|x| d16.is_zs(x)))
            .collect();
        p.marks = take_spread(
            chars().filter(|c| d6.ud.gc[*c as usize] == *b"Mn" && is_pvalid(*c) && d6.ud.ccc[*c as usize] != 0).collect(),
            80,
        );
        // canonical composition pairs from UnicodeData 16.0.0 decompositions without a tag
        let mut pairs = Vec::new();
        for (cp, (tag, map)) in &d16.ud.decomp {
            if tag.is_none() && map.len() == 2 {
                if let (Some(a), Some(b), Some(c)) = (char::from_u32(map[0]), char::from_u32(map[1]), char::from_u32(*cp)) {
                    let s: String = [a, b].iter().collect();
                    if s.nfc().eq(std::iter::once(c)) {
                        pairs.push((a, b));
                    }
                }
            }
        }
        pairs.sort();
        p.compose_pairs = pairs;
        p.hangul = vec!['\u{AC00}', '\u{AC01}', '\u{D7A3}', '\u{1100}', '\u{1161}', '\u{11A8}', '\u{3131}', '\u{FFA1}'];
        let mut kh: Vec<char> = Vec::new();
        kh.extend(take_spread(d6.hiragana.iter().filter_map(char::from_u32).filter(|c| is_pvalid(*c)).collect(), 10));
        kh.extend(take_spread(d6.katakana.iter().filter_map(char::from_u32).filter(|c| is_pvalid(*c)).collect(), 10));
        kh.extend(take_spread(d6.han.iter().filter_map(char::from_u32).filter(|c| is_pvalid(*c)).collect(), 10));
        p.kana_han = kh;
        p.context = vec!['\u{200C}', '\u{200D}', '\u{00B7}', '\u{0375}', '\u{05F3}', '\u{05F4}', '\u{30FB}'];
        p.context.extend(p.arabic_digits.iter());
        p.context.extend(p.ext_arabic_digits.iter());
        for c in chars() {
            if d16.ud.assigned.has(c as u32) {
                let b = d16.bidi(c) as usize;
                if b < 23 {
                    p.bidi[b].push(c);
                    if is_pvalid(c) {
                        p.bidi_pvalid[b].push(c);
                    }
                }
            }
        }
        let letters: Vec<char> = chars()
            .filter(|c| is_pvalid(*c) && matches!(&d6.ud.gc[*c as usize], b"Ll" | b"Lo" | b"Lu" | b"Nd" | b"Lm"))
            .collect();
        p.pvalid_upper = take_spread(letters.iter().copied().filter(|c| d6.ud.gc[*c as usize] == *b"Lu").collect(), 200);
        p.pvalid_letters = take_spread(letters, 1500);
        p.free_pval = take_spread(chars().filter(|c| abs[*c as usize] == Abs::IdDisOrFreePval).collect(), 600);
        p.disallowed = take_spread(chars().filter(|c| abs[*c as usize] == Abs::Disallowed).collect(), 300);
        p.unassigned6 = take_spread(chars().filter(|c| abs[*c as usize] == Abs::Unassigned).collect(), 300);
        p.controls = (0u32..0x20).chain(0x7f..0xa0).filter_map(char::from_u32).collect();
        p.four_byte = take_spread(chars().filter(|c| (*c as u32) >= 0x10000 && abs[*c as usize] != Abs::Unassigned).collect(), 300);
        // upper-case letter + mark whose lowercase composes differently
        let mut inter = Vec::new();
        for u in chars().filter(|c| c.is_uppercase() && is_pvalid(*c)) {
            for m in ['\u{301}', '\u{308}', '\u{30C}', '\u{304}', '\u{303}', '\u{323}'] {
                let s: String = [u, m].iter().collect();
                let a: String = refmodel::lower(&refmodel::nfc(&s));
                let b: String = refmodel::nfc(&refmodel::lower(&s));
                if a != b {
                    inter.push(s);
                }
            }
        }
        p.case_nfc_interact = inter;
        p.abs = abs;
        p
    }

    pub fn is_pvalid(&self, c: char) -> bool {
        self.abs[c as usize] == Abs::PValid
    }
}

/// Words whose treatment depends on context-sensitive or multi-character case
/// rules in *tailored / string-level* APIs (final sigma, dotted I, sharp s,
/// ligatures, titlecase digraphs, n-apostrophe): a per-character mapping must
/// not care, a string-level shortcut does.
pub const SPECIAL_WORDS: [&str; 22] = [
    "\u{391}\u{3A3}",
    "\u{39F}\u{394}\u{3A5}\u{3A3}\u{3A3}\u{395}\u{3A5}\u{3A3}",
    "\u{3A3}",
    "\u{3A3}\u{391}\u{3A3}",
    "a\u{3A3}",
    "\u{391}\u{3A3}\u{FF01}",
    "\u{FF21}\u{3A3}",
    "\u{391}\u{3A3} \u{392}",
    "\u{130}stanbul",
    "I\u{307}",
    "\u{1C5}\u{1C8}",
    "\u{1F88}\u{1FBC}",
    "STRASSE\u{1E9E}",
    "\u{149}A",
    "\u{FB01}\u{FB03}X",
    "\u{3A3}\u{301}\u{3A3}",
    "\u{10400}\u{10428}",
    "\u{2160}\u{2170}",
    "\u{24B6}\u{24D0}",
    "\u{212A}\u{212B}\u{2126}",
    "\u{1E9E}",
    "\u{13A0}\u{13F0}",
];

/// Weighted character source kinds for random strings
#[derive(Clone, Copy, Debug)]
pub enum Kind {
    AsciiLower,
    AsciiUpper,
    Digit,
    Punct,
    AsciiSpace,
    Zs,
    Width,
    Cased,
    Title,
    NfcDiff,
    NfkcDiff,
    SpaceIntro,
    Mark,
    ComposePair,
    Hangul,
    Context,
    Virama,
    Joining,
    Script,
    Letter,
    Upper,
    FreePval,
    Disallowed,
    Unassigned,
    Control,
    FourByte,
    Rtl,
    RtlDigit,
    AnyScalar,
    CaseNfc,
    Cherokee,
    SpecialWord,
}

pub fn push_kind(p: &Pools, rng: &mut Rng, k: Kind, out: &mut String) {
    match k {
        Kind::AsciiLower => out.push(*rng.pick(&p.ascii_lower)),
        Kind::AsciiUpper => out.push(*rng.pick(&p.ascii_upper)),
        Kind::Digit => out.push(*rng.pick(&p.ascii_digit)),
        Kind::Punct => out.push(*rng.pick(&p.ascii_punct)),
        Kind::AsciiSpace => out.push(' '),
        Kind::Zs => out.push(*rng.pick(&p.zs)),
        Kind::Width => out.push(*rng.pick(&p.width)),
        Kind::Cased => out.push(*rng.pick(&p.cased)),
        Kind::Title => out.push(*rng.pick(&p.titlecase)),
        Kind::NfcDiff => out.push(*rng.pick(&p.nfc_diff)),
        Kind::NfkcDiff => out.push(*rng.pick(&p.nfkc_diff)),
        Kind::SpaceIntro => out.push(*rng.pick(&p.space_intro)),
        Kind::Mark => out.push(*rng.pick(&p.marks)),
        Kind::ComposePair => {
            let (a, b) = *rng.pick(&p.compose_pairs);
            out.push(a);
            out.push(b);
        }
        Kind::Hangul => out.push(*rng.pick(&p.hangul)),
        Kind::Context => out.push(*rng.pick(&p.context)),
        Kind::Virama => out.push(*rng.pick(&p.viramas)),
        Kind::Joining => {
            let v = match rng.below(4) {
                0 => &p.jt_d,
                1 => &p.jt_l,
                2 => &p.jt_r,
                _ => &p.jt_t,
            };
            out.push(*rng.pick(v));
        }
        Kind::Script => {
            let v = match rng.below(4) {
                0 => &p.greek,
                1 => &p.hebrew,
                2 => &p.kana_han,
                _ => &p.ascii_lower,
            };
            out.push(*rng.pick(v));
        }
        Kind::Letter => out.push(*rng.pick(&p.pvalid_letters)),
        Kind::Upper => out.push(*rng.pick(&p.pvalid_upper)),
        Kind::FreePval => out.push(*rng.pick(&p.free_pval)),
        Kind::Disallowed => out.push(*rng.pick(&p.disallowed)),
        Kind::Unassigned => out.push(*rng.pick(&p.unassigned6)),
        Kind::Control => out.push(*rng.pick(&p.controls)),
        Kind::FourByte => out.push(*rng.pick(&p.four_byte)),
        Kind::Rtl => {
            let v = if rng.chance(1, 2) { &p.bidi_pvalid[B_R as usize] } else { &p.bidi_pvalid[B_AL as usize] };
            out.push(*rng.pick(v));
        }
        Kind::RtlDigit => {
            let v = if rng.chance(1, 2) { &p.bidi[B_AN as usize] } else { &p.bidi[B_EN as usize] };
            out.push(*rng.pick(v));
        }
        Kind::AnyScalar => loop {
            if let Some(c) = char::from_u32(rng.below(NCP) as u32) {
                out.push(c);
                break;
            }
        },
        Kind::CaseNfc => out.push_str(rng.pick(&p.case_nfc_interact[..]).as_str()),
        Kind::Cherokee => out.push(*rng.pick(&p.cherokee)),
        Kind::SpecialWord => out.push_str(SPECIAL_WORDS[rng.below(SPECIAL_WORDS.len())]),
    }
}

pub type Mix = &'static [(Kind, usize)];

/// mostly valid identifier-like content with interacting specials
pub const MIX_USERNAME: Mix = &[
    (Kind::AsciiLower, 30),
    (Kind::AsciiUpper, 12),
    (Kind::Digit, 6),
    (Kind::Letter, 25),
    (Kind::Upper, 10),
    (Kind::Width, 10),
    (Kind::Mark, 6),
    (Kind::ComposePair, 8),
    (Kind::CaseNfc, 4),
    (Kind::Cased, 4),
    (Kind::Title, 1),
    (Kind::Hangul, 2),
    (Kind::Context, 3),
    (Kind::Virama, 2),
    (Kind::Joining, 2),
    (Kind::Script, 4),
    (Kind::Rtl, 3),
    (Kind::RtlDigit, 1),
    (Kind::Punct, 2),
    (Kind::FreePval, 1),
    (Kind::Disallowed, 1),
    (Kind::Unassigned, 1),
    (Kind::AsciiSpace, 1),
    (Kind::FourByte, 1),
    (Kind::Cherokee, 1),
    (Kind::SpecialWord, 2),
];

/// freeform content: spaces, symbols, compat characters, letters
pub const MIX_FREEFORM: Mix = &[
    (Kind::AsciiLower, 25),
    (Kind::AsciiUpper, 10),
    (Kind::Digit, 4),
    (Kind::Punct, 6),
    (Kind::AsciiSpace, 14),
    (Kind::Zs, 8),
    (Kind::Letter, 15),
    (Kind::Upper, 5),
    (Kind::Width, 4),
    (Kind::FreePval, 6),
    (Kind::NfkcDiff, 5),
    (Kind::SpaceIntro, 4),
    (Kind::NfcDiff, 3),
    (Kind::Mark, 4),
    (Kind::ComposePair, 5),
    (Kind::Cased, 4),
    (Kind::Title, 2),
    (Kind::Hangul, 2),
    (Kind::Context, 2),
    (Kind::Virama, 1),
    (Kind::Script, 2),
    (Kind::Rtl, 2),
    (Kind::FourByte, 3),
    (Kind::Disallowed, 1),
    (Kind::Unassigned, 1),
    (Kind::Control, 1),
    (Kind::CaseNfc, 2),
    (Kind::SpecialWord, 2),
];

/// hostile: anything
pub const MIX_HOSTILE: Mix = &[
    (Kind::AnyScalar, 20),
    (Kind::AsciiLower, 10),
    (Kind::AsciiSpace, 6),
    (Kind::Zs, 6),
    (Kind::Width, 5),
    (Kind::Cased, 5),
    (Kind::Title, 2),
    (Kind::NfcDiff, 4),
    (Kind::NfkcDiff, 5),
    (Kind::SpaceIntro, 4),
    (Kind::Mark, 5),
    (Kind::ComposePair, 4),
    (Kind::Hangul, 2),
    (Kind::Context, 6),
    (Kind::Virama, 3),
    (Kind::Joining, 4),
    (Kind::Script, 3),
    (Kind::Disallowed, 3),
    (Kind::Unassigned, 3),
    (Kind::Control, 2),
    (Kind::FourByte, 5),
    (Kind::Rtl, 4),
    (Kind::RtlDigit, 2),
    (Kind::FreePval, 4),
    (Kind::CaseNfc, 2),
    (Kind::Cherokee, 1),
    (Kind::SpecialWord, 1),
];

pub fn pick_kind(rng: &mut Rng, mix: Mix) -> Kind {
    let total: usize = mix.iter().map(|m| m.1).sum();
    let mut r = rng.below(total);
    for (k, w) in mix {
        if r < *w {
            return *k;
        }
        r -= *w;
    }
    mix[0].0
}

pub fn random_string(p: &Pools, rng: &mut Rng, mix: Mix, max_len: usize) -> String {
    let n = rng.below(max_len + 1);
    let mut s = String::new();
    for _ in 0..n {
        let k = pick_kind(rng, mix);
        push_kind(p, rng, k, &mut s);
    }
    s
}

/// A name drawn from a single script so that it is usually accepted
pub fn name_like(p: &Pools, rng: &mut Rng, max_len: usize) -> String {
    let n = rng.range(1, max_len.max(1));
    let mut s = String::new();
    let script = rng.below(6);
    for _ in 0..n {
        match script {
            0 => { let k_ = if rng.chance(1, 4) { Kind::AsciiUpper } else { Kind::AsciiLower }; push_kind(p, rng, k_, &mut s) },
            1 => { let k_ = if rng.chance(1, 4) { Kind::Upper } else { Kind::Letter }; push_kind(p, rng, k_, &mut s) },
            2 => s.push(*rng.pick(&p.greek)),
            3 => s.push(*rng.pick(&p.kana_han)),
            4 => s.push(*rng.pick(&p.bidi_pvalid[B_R as usize])),
            _ => s.push(*rng.pick(&p.bidi_pvalid[B_AL as usize])),
        }
    }
    s
}

fn widen(p: &Pools, inv: &HashMap<char, Vec<char>>, rng: &mut Rng, s: &str) -> String {
    let _ = p;
    s.chars()
        .map(|c| match inv.get(&c) {
            Some(v) if rng.chance(1, 2) => *rng.pick(v),
            _ => c,
        })
        .collect()
}

pub struct Variants {
    /// inverse width map: narrow/ordinary char -> wide/narrow compat forms
    pub inv_width: HashMap<char, Vec<char>>,
    /// inverse lowercase: lower -> upper/title forms (single-char mappings)
    pub inv_lower: HashMap<char, Vec<char>>,
}

impl Variants {
    pub fn build(p: &Pools, d16: &Data16) -> Variants {
        let mut inv_width: HashMap<char, Vec<char>> = HashMap::new();
        for (k, v) in &d16.width {
            if let (Some(k), Some(v)) = (char::from_u32(*k), char::from_u32(*v)) {
                inv_width.entry(v).or_default().push(k);
            }
        }
        for v in inv_width.values_mut() {
            v.sort();
        }
        let mut inv_lower: HashMap<char, Vec<char>> = HashMap::new();
        for c in &p.cased {
            let mut it = c.to_lowercase();
            if let (Some(l), None) = (it.next(), it.next()) {
                inv_lower.entry(l).or_default().push(*c);
            }
        }
        for v in inv_lower.values_mut() {
            v.sort();
        }
        Variants { inv_width, inv_lower }
    }

    /// one random variant of `s` that a comparison profile may or may not equate with `s`
    pub fn variant(&self, p: &Pools, rng: &mut Rng, s: &str) -> String {
        match rng.below(14) {
            0 => s.chars().map(|c| if rng.chance(1, 2) { c.to_uppercase().next().unwrap_or(c) } else { c }).collect(),
            1 => s
                .chars()
                .map(|c| match self.inv_lower.get(&c) {
                    Some(v) if rng.chance(2, 3) => *rng.pick(v),
                    _ => c,
                })
                .collect(),
            2 => widen(p, &self.inv_width, rng, s),
            3 => s.nfd().collect(),
            4 => s.nfkd().collect(),
            5 => s.nfc().collect(),
            6 => s.nfkc().collect(),
            7 => {
                // space edits: add leading/trailing/double/non-ASCII spaces
                let mut o = String::new();
                if rng.chance(1, 2) {
                    o.push(*rng.pick(&p.zs));
                }
                for c in s.chars() {
                    o.push(c);
                    if rng.chance(1, 5) {
                        o.push(if rng.chance(1, 2) { ' ' } else { *rng.pick(&p.zs) });
                        if rng.chance(1, 3) {
                            o.push(' ');
                        }
                    }
                }
                if rng.chance(1, 2) {
                    o.push(' ');
                }
                o
            }
            8 => s.chars().map(|c| if p.zs.contains(&c) || c == ' ' { *rng.pick(&p.zs) } else { c }).collect(),
            9 => {
                // one character edit (replace)
                let cs: Vec<char> = s.chars().collect();
                if cs.is_empty() {
                    return "a".into();
                }
                let i = rng.below(cs.len());
                let mut o = String::new();
                for (j, c) in cs.iter().enumerate() {
                    if i == j {
                        { let k_ = pick_kind(rng, MIX_USERNAME); push_kind(p, rng, k_, &mut o) };
                    } else {
                        o.push(*c);
                    }
                }
                o
            }
            10 => {
                // insert a mark or composing pair
                let cs: Vec<char> = s.chars().collect();
                let i = rng.below(cs.len() + 1);
                let mut o: String = cs[..i].iter().collect();
                { let k_ = if rng.chance(1, 2) { Kind::Mark } else { Kind::ComposePair }; push_kind(p, rng, k_, &mut o) };
                o.extend(cs[i..].iter());
                o
            }
            11 => {
                // make invalid: insert a disallowed / unassigned / control char at a random place
                let cs: Vec<char> = s.chars().collect();
                let i = rng.below(cs.len() + 1);
                let mut o: String = cs[..i].iter().collect();
                let k = *rng.pick(&[Kind::Disallowed, Kind::Unassigned, Kind::Control, Kind::Context, Kind::Punct]);
                push_kind(p, rng, k, &mut o);
                o.extend(cs[i..].iter());
                o
            }
            12 => s.to_lowercase(),
            _ => s.to_string(),
        }
    }

    /// family of spellings of one seed (the seed is member 0)
    pub fn family(&self, p: &Pools, rng: &mut Rng, seed: &str, n: usize) -> Vec<String> {
        let mut v = vec![seed.to_string()];
        while v.len() < n {
            let base = rng.pick(&v).clone();
            let mut x = self.variant(p, rng, &base);
            if rng.chance(1, 4) {
                x = self.variant(p, rng, &x);
            }
            v.push(x);
        }
        v
    }
}

/// Constructive valid contextual labels (then mutated by callers)
pub fn contextual_label(p: &Pools, rng: &mut Rng) -> String {
    let mut s = String::new();
    match rng.below(9) {
        0 => {
            // D T* ZWNJ T* R
            let v_ = if rng.chance(1, 2) { &p.jt_d } else { &p.jt_l };
            s.push(*rng.pick(v_));
            for _ in 0..rng.below(3) {
                s.push(*rng.pick(&p.jt_t));
            }
            s.push('\u{200C}');
            for _ in 0..rng.below(3) {
                s.push(*rng.pick(&p.jt_t));
            }
            let v_ = if rng.chance(1, 2) { &p.jt_d } else { &p.jt_r };
            s.push(*rng.pick(v_));
        }
        1 => {
            s.push(*rng.pick(&p.pvalid_letters));
            s.push(*rng.pick(&p.viramas));
            s.push(if rng.chance(1, 2) { '\u{200D}' } else { '\u{200C}' });
        }
        2 => s.push_str("l\u{B7}l"),
        3 => {
            s.push('\u{375}');
            s.push(*rng.pick(&p.greek));
        }
        4 => {
            s.push(*rng.pick(&p.hebrew));
            s.push(if rng.chance(1, 2) { '\u{5F3}' } else { '\u{5F4}' });
        }
        5 => {
            s.push('\u{30FB}');
            s.push(*rng.pick(&p.kana_han));
        }
        6 => {
            for _ in 0..rng.range(1, 4) {
                s.push(*rng.pick(&p.arabic_digits));
            }
        }
        7 => {
            for _ in 0..rng.range(1, 4) {
                s.push(*rng.pick(&p.ext_arabic_digits));
            }
        }
        _ => {
            s.push(*rng.pick(&p.kana_han));
            s.push('\u{30FB}');
        }
    }
    // surround with ordinary letters sometimes
    if rng.chance(1, 2) {
        let mut t = String::new();
        for _ in 0..rng.below(3) {
            t.push(*rng.pick(&p.ascii_lower));
        }
        t.push_str(&s);
        for _ in 0..rng.below(3) {
            t.push(*rng.pick(&p.ascii_lower));
        }
        s = t;
    }
    s
}

/// core text wrapped in runs of white space of every kind: ASCII space, other Zs,
/// and White_Space characters that are NOT Zs (controls, line/paragraph separators)
pub fn edge_whitespace(p: &Pools, rng: &mut Rng, core: &str) -> String {
    const WS: [char; 12] = [' ', ' ', '\t', '\n', '\r', '\u{B}', '\u{C}', '\u{85}', '\u{2028}', '\u{2029}', '\u{A0}', '\u{3000}'];
    let mut s = String::new();
    let run = |rng: &mut Rng, s: &mut String| {
        for _ in 0..rng.below(4) {
            if rng.chance(1, 4) {
                s.push(*rng.pick(&p.zs));
            } else {
                s.push(*rng.pick(&WS));
            }
        }
    };
    run(rng, &mut s);
    s.push_str(core);
    if rng.chance(1, 3) {
        run(rng, &mut s);
        s.push_str(core);
    }
    run(rng, &mut s);
    s
}

/// single edit of a label: delete, duplicate, replace, insert, swap
pub fn mutate(p: &Pools, rng: &mut Rng, s: &str, mix: Mix) -> String {
    let mut cs: Vec<char> = s.chars().collect();
    match rng.below(5) {
        0 if !cs.is_empty() => {
            let i = rng.below(cs.len());
            cs.remove(i);
        }
        1 if !cs.is_empty() => {
            let i = rng.below(cs.len());
            let c = cs[i];
            cs.insert(i, c);
        }
        2 if !cs.is_empty() => {
            let i = rng.below(cs.len());
            let mut t = String::new();
            { let k_ = pick_kind(rng, mix); push_kind(p, rng, k_, &mut t) };
            let r: Vec<char> = t.chars().collect();
            cs.splice(i..i + 1, r);
        }
        3 if cs.len() >= 2 => {
            let i = rng.below(cs.len() - 1);
            cs.swap(i, i + 1);
        }
        _ => {
            let i = rng.below(cs.len() + 1);
            let mut t = String::new();
            { let k_ = pick_kind(rng, mix); push_kind(p, rng, k_, &mut t) };
            let r: Vec<char> = t.chars().collect();
            cs.splice(i..i, r);
        }
    }
    cs.into_iter().collect()
}

/// The 9-symbol multi-byte alphabet of C01 (1, 2, 3 and 4 byte characters)
pub const ALPHA9: [char; 9] = [' ', '\u{A0}', '\u{3000}', 'a', 'A', '\u{E9}', '\u{20AC}', '\u{FF21}', '\u{1F600}'];

pub fn string_from_indices(alpha: &[char], idx: &[usize]) -> String {
    idx.iter().map(|i| alpha[*i]).collect()
}
