//! Reference models, written against the RFC texts and the pinned UCD
//! snapshot, never against the implementation.

use crate::api::{Dp, Out, E, R};
use crate::ucd::*;
use unicode_normalization::UnicodeNormalization;

// =================================================== RFC 8264 section 8 ====

#[derive(Clone, Copy, PartialEq, Eq, Debug, Hash)]
pub enum Step {
    Exceptions,
    Unassigned,
    Ascii7,
    JoinControl,
    OldHangulJamo,
    Ignorable,
    Controls,
    HasCompat,
    LetterDigits,
    OtherLetterDigits,
    Spaces,
    Symbols,
    Punctuation,
    Default,
    NotACodePoint,
}

/// abstract value: what the decision list says before a class specialises it
#[derive(Clone, Copy, PartialEq, Eq, Debug, Hash)]
pub enum Abs {
    PValid,
    ContextJ,
    ContextO,
    Disallowed,
    Unassigned,
    IdDisOrFreePval,
}

impl Abs {
    pub fn identifier(self) -> Dp {
        match self {
            Abs::PValid => Dp::PValid,
            Abs::ContextJ => Dp::ContextJ,
            Abs::ContextO => Dp::ContextO,
            Abs::Disallowed => Dp::Disallowed,
            Abs::Unassigned => Dp::Unassigned,
            Abs::IdDisOrFreePval => Dp::SpecClassDis,
        }
    }
    pub fn freeform(self) -> Dp {
        match self {
            Abs::IdDisOrFreePval => Dp::SpecClassPval,
            o => o.identifier(),
        }
    }
}

/// RFC 8264 section 9.6 (= RFC 5892 section 2.6), transcribed from the RFC
fn exception(cp: u32) -> Option<Abs> {
    match cp {
        0x00DF | 0x03C2 | 0x06FD | 0x06FE | 0x0F0B | 0x3007 => Some(Abs::PValid),
        0x00B7 | 0x0375 | 0x05F3 | 0x05F4 | 0x30FB => Some(Abs::ContextO),
        0x0640 | 0x07FA | 0x302E | 0x302F | 0x3031..=0x3035 | 0x303B => Some(Abs::Disallowed),
        0x0660..=0x0669 | 0x06F0..=0x06F9 => Some(Abs::ContextO),
        _ => None,
    }
}

pub fn has_compat(cp: u32) -> bool {
    match char::from_u32(cp) {
        None => false,
        Some(c) => {
            let mut it = std::iter::once(c).nfkc();
            !(it.next() == Some(c) && it.next().is_none())
        }
    }
}

pub fn derived(d: &Data6, cp: u32) -> (Abs, Step) {
    if cp as usize >= NCP {
        // not a code point at all: never valid. The library answers UNASSIGNED
        // or DISALLOWED; the property accepts either (checked by the monitor).
        return (Abs::Unassigned, Step::NotACodePoint);
    }
    if let Some(a) = exception(cp) {
        return (a, Step::Exceptions);
    }
    // BackwardCompatible (G) is empty in RFC 8264
    let ud = &d.ud;
    if !ud.assigned.has(cp) && !d.nonchar.has(cp) {
        return (Abs::Unassigned, Step::Unassigned);
    }
    if (0x21..=0x7e).contains(&cp) {
        return (Abs::PValid, Step::Ascii7);
    }
    if d.join_control.has(cp) {
        return (Abs::ContextJ, Step::JoinControl);
    }
    if d.hst_lvt.has(cp) {
        return (Abs::Disallowed, Step::OldHangulJamo);
    }
    if d.default_ignorable.has(cp) || d.nonchar.has(cp) {
        return (Abs::Disallowed, Step::Ignorable);
    }
    if ud.gc_is(cp, &["Cc"]) {
        return (Abs::Disallowed, Step::Controls);
    }
    if has_compat(cp) {
        return (Abs::IdDisOrFreePval, Step::HasCompat);
    }
    if ud.gc_is(cp, &["Ll", "Lu", "Lo", "Nd", "Lm", "Mn", "Mc"]) {
        return (Abs::PValid, Step::LetterDigits);
    }
    if ud.gc_is(cp, &["Lt", "Nl", "No", "Me"]) {
        return (Abs::IdDisOrFreePval, Step::OtherLetterDigits);
    }
    if ud.gc_is(cp, &["Zs"]) {
        return (Abs::IdDisOrFreePval, Step::Spaces);
    }
    if ud.gc_is(cp, &["Sm", "Sc", "Sk", "So"]) {
        return (Abs::IdDisOrFreePval, Step::Symbols);
    }
    if ud.gc_is(cp, &["Pc", "Pd", "Ps", "Pe", "Pi", "Pf", "Po"]) {
        return (Abs::IdDisOrFreePval, Step::Punctuation);
    }
    (Abs::Disallowed, Step::Default)
}

pub fn csv_abs(r: &CsvRow) -> Abs {
    match (r.p1, r.p2) {
        (CsvProp::PValid, None) => Abs::PValid,
        (CsvProp::ContextJ, None) => Abs::ContextJ,
        (CsvProp::ContextO, None) => Abs::ContextO,
        (CsvProp::Disallowed, None) => Abs::Disallowed,
        (CsvProp::Unassigned, None) => Abs::Unassigned,
        (CsvProp::IdDis, Some(CsvProp::FreePVal)) => Abs::IdDisOrFreePval,
        other => panic!("unexpected registry property combination {:?}", other),
    }
}

/// per code point abstract value according to the IANA registry snapshot
pub fn csv_table(rows: &[CsvRow]) -> Result<Vec<Abs>, String> {
    let mut t: Vec<Option<Abs>> = vec![None; NCP];
    for r in rows {
        let a = csv_abs(r);
        for cp in r.lo..=r.hi {
            if cp as usize >= NCP {
                return Err(format!("registry row beyond U+10FFFF: {:X}", cp));
            }
            if t[cp as usize].is_some() {
                return Err(format!("registry lists U+{:04X} twice", cp));
            }
            t[cp as usize] = Some(a);
        }
    }
    let mut out = Vec::with_capacity(NCP);
    for (cp, v) in t.into_iter().enumerate() {
        match v {
            Some(a) => out.push(a),
            None => return Err(format!("registry does not list U+{:04X}", cp)),
        }
    }
    Ok(out)
}

// ================================================ RFC 5892 Appendix A ====

#[derive(Clone, Copy, PartialEq, Eq, Debug, Hash)]
pub enum Tri {
    True,
    False,
    Undefined,
    NotApplicable,
    /// The rule cannot be true and a neighbour it has to inspect lies outside
    /// the label (RFC 5892: Before(FirstChar)/After(LastChar) is Undefined; for
    /// the A.1 regular expression the RFC says false but the scan ran past an
    /// end). The properties (C02, C03) allow `false` and `undefined` here: true
    /// is excluded, undefined is permitted "only when a neighbour lies outside".
    FalseOrUndefined,
}

pub const ZWNJ: u32 = 0x200C;
pub const ZWJ: u32 = 0x200D;

/// which rule (0..=7, the order of api::RULE_NAMES) owns a code point
pub fn rule_of(cp: u32) -> Option<usize> {
    match cp {
        0x200C => Some(0),
        0x200D => Some(1),
        0x00B7 => Some(2),
        0x0375 => Some(3),
        0x05F3 | 0x05F4 => Some(4),
        0x30FB => Some(5),
        0x0660..=0x0669 => Some(6),
        0x06F0..=0x06F9 => Some(7),
        _ => None,
    }
}

/// Reference evaluation of rule `idx` on label `l` (as code points) at `pos`
pub fn ctx_rule(d: &Data6, idx: usize, l: &[u32], pos: usize) -> Tri {
    if pos >= l.len() {
        return Tri::Undefined;
    }
    let cp = l[pos];
    if rule_of(cp) != Some(idx) {
        return Tri::NotApplicable;
    }
    let before = if pos == 0 { None } else { Some(l[pos - 1]) };
    let after = l.get(pos + 1).copied();
    match idx {
        0 => {
            // If Canonical_Combining_Class(Before(cp)) .eq. Virama Then True;
            let b = match before {
                None => return Tri::FalseOrUndefined,
                Some(b) => b,
            };
            if d.virama.has(b) {
                return Tri::True;
            }
            // If RegExpMatch((Joining_Type:{L,D})(Joining_Type:T)*‌
            //      (Joining_Type:T)*(Joining_Type:{R,D})) Then True;
            let mut ran_off = false;
            let mut i = pos; // scan left over T*
            let left_ok = loop {
                if i == 0 {
                    ran_off = true;
                    break false;
                }
                i -= 1;
                let c = l[i];
                if d.jt_t.has(c) {
                    continue;
                }
                break d.jt_l.has(c) || d.jt_d.has(c);
            };
            let mut right_ok = false;
            if left_ok {
                let mut j = pos + 1;
                right_ok = loop {
                    if j >= l.len() {
                        ran_off = true;
                        break false;
                    }
                    let c = l[j];
                    j += 1;
                    if d.jt_t.has(c) {
                        continue;
                    }
                    break d.jt_r.has(c) || d.jt_d.has(c);
                };
            }
            if left_ok && right_ok {
                Tri::True
            } else if ran_off {
                Tri::FalseOrUndefined
            } else {
                Tri::False
            }
        }
        1 => match before {
            None => Tri::FalseOrUndefined,
            Some(b) => tri(d.virama.has(b)),
        },
        2 => {
            // If Before(cp) .eq. U+006C And After(cp) .eq. U+006C Then True;
            match (before, after) {
                (Some(b), Some(a)) => tri(b == 0x6c && a == 0x6c),
                _ => Tri::FalseOrUndefined,
            }
        }
        3 => match after {
            None => Tri::FalseOrUndefined,
            Some(a) => tri(d.greek.has(a)),
        },
        4 => match before {
            None => Tri::FalseOrUndefined,
            Some(b) => tri(d.hebrew.has(b)),
        },
        5 => tri(l.iter().any(|c| d.hiragana.has(*c) || d.katakana.has(*c) || d.han.has(*c))),
        6 => tri(!l.iter().any(|c| (0x06F0..=0x06F9).contains(c))),
        7 => tri(!l.iter().any(|c| (0x0660..=0x0669).contains(c))),
        _ => unreachable!(),
    }
}

fn tri(b: bool) -> Tri {
    if b {
        Tri::True
    } else {
        Tri::False
    }
}

pub fn tri_accepts(t: Tri, c: crate::api::Ctx) -> bool {
    use crate::api::Ctx;
    match (t, c) {
        (Tri::True, Ctx::True) | (Tri::False, Ctx::False) => true,
        (Tri::Undefined, Ctx::Undefined) | (Tri::NotApplicable, Ctx::NotApplicable) => true,
        (Tri::FalseOrUndefined, Ctx::False) | (Tri::FalseOrUndefined, Ctx::Undefined) => true,
        _ => false,
    }
}

// ===================================================== string class ====

/// Expected result of StringClass::allows for a class described by `value`.
/// Returns the set of acceptable results (one, or two in the tolerant case).
pub fn allows<F: Fn(char) -> Dp>(d: &Data6, value: F, label: &str) -> Vec<Out<()>> {
    let l: Vec<u32> = label.chars().map(|c| c as u32).collect();
    for (pos, c) in label.chars().enumerate() {
        let v = value(c);
        let cp = c as u32;
        match v {
            Dp::PValid | Dp::SpecClassPval => continue,
            Dp::SpecClassDis | Dp::Disallowed | Dp::Unassigned => return vec![Out::Err(E::Bad(cp, pos, v))],
            Dp::ContextJ | Dp::ContextO => match rule_of(cp) {
                None => return vec![Out::Err(E::MissingRule(cp, pos, v))],
                Some(idx) => match ctx_rule(d, idx, &l, pos) {
                    Tri::True => continue,
                    Tri::False => return vec![Out::Err(E::Bad(cp, pos, v))],
                    Tri::Undefined => return vec![Out::Err(E::Undefined)],
                    Tri::FalseOrUndefined => return vec![Out::Err(E::Bad(cp, pos, v)), Out::Err(E::Undefined)],
                    Tri::NotApplicable => return vec![Out::Err(E::CtxNotApplicable(cp, pos, v))],
                },
            },
        }
    }
    vec![Out::Ok(())]
}

// ===================================================== RFC 5893 bidi ====

#[derive(Clone, Copy, PartialEq, Eq, Debug, Hash)]
pub enum BidiVerdict {
    NoRtl,
    Ok,
    /// index 1..=6 of the first failing condition
    Fails(u8),
}

pub fn has_rtl(classes: &[u8]) -> bool {
    classes.iter().any(|c| matches!(*c, B_R | B_AL | B_AN))
}

/// RFC 5893 section 2, six conditions, evaluated separately
pub fn bidi_rule(classes: &[u8]) -> BidiVerdict {
    if classes.is_empty() {
        return BidiVerdict::Ok;
    }
    let first = classes[0];
    // 1. first character L, R or AL
    let rtl = match first {
        B_R | B_AL => true,
        B_L => false,
        _ => return BidiVerdict::Fails(1),
    };
    // last non-NSM
    let mut end = classes.len();
    while end > 0 && classes[end - 1] == B_NSM {
        end -= 1;
    }
    if rtl {
        // 2. only R, AL, AN, EN, ES, CS, ET, ON, BN, NSM
        if !classes.iter().all(|c| matches!(*c, B_R | B_AL | B_AN | B_EN | B_ES | B_CS | B_ET | B_ON | B_BN | B_NSM)) {
            return BidiVerdict::Fails(2);
        }
        // 3. end: R, AL, EN or AN followed by zero or more NSM
        if end == 0 || !matches!(classes[end - 1], B_R | B_AL | B_EN | B_AN) {
            return BidiVerdict::Fails(3);
        }
        // 4. EN and AN not both present
        if classes.contains(&B_EN) && classes.contains(&B_AN) {
            return BidiVerdict::Fails(4);
        }
    } else {
        // 5. only L, EN, ES, CS, ET, ON, BN, NSM
        if !classes.iter().all(|c| matches!(*c, B_L | B_EN | B_ES | B_CS | B_ET | B_ON | B_BN | B_NSM)) {
            return BidiVerdict::Fails(5);
        }
        // 6. end: L or EN followed by zero or more NSM
        if end == 0 || !matches!(classes[end - 1], B_L | B_EN) {
            return BidiVerdict::Fails(6);
        }
    }
    BidiVerdict::Ok
}

/// verdict of the directionality rule (RFC 8265: applies the Bidi rule to
/// strings that contain right-to-left characters)
pub fn directionality(classes: &[u8]) -> BidiVerdict {
    if !has_rtl(classes) {
        BidiVerdict::NoRtl
    } else {
        bidi_rule(classes)
    }
}

/// an NSM that is followed, somewhere later, by a non-NSM
pub fn has_interior_nsm(classes: &[u8]) -> bool {
    let mut seen = false;
    for c in classes {
        if *c == B_NSM {
            seen = true;
        } else if seen {
            return true;
        }
    }
    false
}

/// The known defect F4 as a model: RFC 5893 plus "after an NSM only NSM may
/// follow" (for both label directions the code treats NSM as trailing only).
pub fn directionality_defect_model(classes: &[u8]) -> BidiVerdict {
    match directionality(classes) {
        BidiVerdict::Ok if has_interior_nsm(classes) => BidiVerdict::Fails(3),
        v => v,
    }
}

// ================================================= per-character rules ====

pub fn lower(s: &str) -> String {
    s.chars().flat_map(|c| c.to_lowercase()).collect()
}

pub fn width(d: &Data16, s: &str) -> String {
    s.chars()
        .map(|c| match d.width.get(&(c as u32)) {
            Some(t) => char::from_u32(*t).expect("width target"),
            None => c,
        })
        .collect()
}

pub fn opaque_spaces(d: &Data16, s: &str) -> String {
    s.chars().map(|c| if c != ' ' && d.is_zs(c) { ' ' } else { c }).collect()
}

pub fn nick_spaces(d: &Data16, s: &str) -> String {
    s.split(|c: char| d.is_zs(c)).filter(|p| !p.is_empty()).collect::<Vec<_>>().join(" ")
}

pub fn nfc(s: &str) -> String {
    s.nfc().collect()
}
pub fn nfkc(s: &str) -> String {
    s.nfkc().collect()
}

/// C13's contract as a simulation over an arbitrary step function.
/// Returns (result, number of applications made).
pub fn stabilize_model<F: FnMut(&str) -> Result<String, E>>(s: &str, mut f: F) -> (R, usize) {
    let mut cur = s.to_string();
    for i in 0..4 {
        match f(&cur) {
            Err(e) => return (Out::Err(e), i + 1),
            Ok(n) => {
                if n == cur {
                    return (Out::Ok(cur), i + 1);
                }
                cur = n;
            }
        }
    }
    (Out::Err(E::Invalid), 4)
}
