//! Shared plumbing: PRNG, escaping, JSON output, the per-run recorder and a
//! small work-stealing thread runner. No dependency on the code under test.

use std::collections::BTreeMap;
use std::fmt::Write as _;
use std::hash::{Hash, Hasher};
use std::sync::atomic::{AtomicUsize, Ordering};

// ---------------------------------------------------------------- PRNG ----

#[derive(Clone)]
pub struct Rng {
    s: [u64; 4],
}

fn splitmix(x: &mut u64) -> u64 {
    *x = x.wrapping_add(0x9E37_79B9_7F4A_7C15);
    let mut z = *x;
    z = (z ^ (z >> 30)).wrapping_mul(0xBF58_476D_1CE4_E5B9);
    z = (z ^ (z >> 27)).wrapping_mul(0x94D0_49BB_1331_11EB);
    z ^ (z >> 31)
}

impl Rng {
    pub fn new(seed: u64) -> Self {
        let mut x = seed;
        let s = [splitmix(&mut x), splitmix(&mut x), splitmix(&mut x), splitmix(&mut x)];
        Rng { s }
    }
    /// independent stream for (seed, stream id)
    pub fn stream(seed: u64, id: u64) -> Self {
        Rng::new(seed ^ id.wrapping_mul(0xD6E8_FEB8_6659_FD93).rotate_left(17) ^ 0x5851_F42D_4C95_7F2D)
    }
    pub fn next(&mut self) -> u64 {
        let r = self.s[1].wrapping_mul(5).rotate_left(7).wrapping_mul(9);
        let t = self.s[1] << 17;
        self.s[2] ^= self.s[0];
        self.s[3] ^= self.s[1];
        self.s[1] ^= self.s[2];
        self.s[0] ^= self.s[3];
        self.s[2] ^= t;
        self.s[3] = self.s[3].rotate_left(45);
        r
    }
    pub fn below(&mut self, n: usize) -> usize {
        if n == 0 {
            0
        } else {
            (self.next() % n as u64) as usize
        }
    }
    pub fn range(&mut self, lo: usize, hi_incl: usize) -> usize {
        lo + self.below(hi_incl - lo + 1)
    }
    pub fn chance(&mut self, num: usize, den: usize) -> bool {
        self.below(den) < num
    }
    pub fn pick<'a, T>(&mut self, v: &'a [T]) -> &'a T {
        &v[self.below(v.len())]
    }
    pub fn shuffle<T>(&mut self, v: &mut [T]) {
        for i in (1..v.len()).rev() {
            let j = self.below(i + 1);
            v.swap(i, j);
        }
    }
}

// ------------------------------------------------------------ escaping ----

/// printable-ASCII rendering of a string; everything else as \u{HEX}
pub fn esc(s: &str) -> String {
    let mut o = String::with_capacity(s.len() + 8);
    for c in s.chars() {
        if (' '..='~').contains(&c) && c != '\\' {
            o.push(c);
        } else {
            let _ = write!(o, "\\u{{{:X}}}", c as u32);
        }
    }
    o
}

pub fn unesc(s: &str) -> Option<String> {
    let mut o = String::new();
    let mut it = s.chars().peekable();
    while let Some(c) = it.next() {
        if c != '\\' {
            o.push(c);
            continue;
        }
        if it.next()? != 'u' || it.next()? != '{' {
            return None;
        }
        let mut h = String::new();
        loop {
            let d = it.next()?;
            if d == '}' {
                break;
            }
            h.push(d);
        }
        o.push(char::from_u32(u32::from_str_radix(&h, 16).ok()?)?);
    }
    Some(o)
}

pub fn cps(s: &str) -> String {
    s.chars().map(|c| format!("U+{:04X}", c as u32)).collect::<Vec<_>>().join(" ")
}

pub fn hash_of<T: Hash>(t: &T) -> u64 {
    // FNV-style stable hasher (std's DefaultHasher is fine too, but keep it explicit)
    struct H(u64);
    impl Hasher for H {
        fn finish(&self) -> u64 {
            self.0
        }
        fn write(&mut self, b: &[u8]) {
            for x in b {
                self.0 ^= *x as u64;
                self.0 = self.0.wrapping_mul(0x0000_0100_0000_01B3);
            }
            self.0 = self.0.rotate_left(5) ^ 0x9E37_79B9_7F4A_7C15;
        }
    }
    let mut h = H(0xCBF2_9CE4_8422_2325);
    t.hash(&mut h);
    h.finish()
}

// ---------------------------------------------------------------- JSON ----

#[derive(Clone, Debug)]
pub enum Json {
    Null,
    Bool(bool),
    Int(i64),
    Num(f64),
    Str(String),
    Arr(Vec<Json>),
    Obj(Vec<(String, Json)>),
}

impl Json {
    pub fn s<T: Into<String>>(t: T) -> Json {
        Json::Str(t.into())
    }
    pub fn obj(v: Vec<(&str, Json)>) -> Json {
        Json::Obj(v.into_iter().map(|(k, v)| (k.to_string(), v)).collect())
    }
    pub fn write(&self, o: &mut String) {
        match self {
            Json::Null => o.push_str("null"),
            Json::Bool(b) => o.push_str(if *b { "true" } else { "false" }),
            Json::Int(i) => {
                let _ = write!(o, "{}", i);
            }
            Json::Num(f) => {
                let _ = write!(o, "{:.3}", f);
            }
            Json::Str(s) => {
                o.push('"');
                for c in s.chars() {
                    match c {
                        '"' => o.push_str("\\\""),
                        '\\' => o.push_str("\\\\"),
                        '\n' => o.push_str("\\n"),
                        '\r' => o.push_str("\\r"),
                        '\t' => o.push_str("\\t"),
                        c if (c as u32) < 0x20 || (c as u32) > 0x7e => {
                            let mut b = [0u16; 2];
                            for u in c.encode_utf16(&mut b) {
                                let _ = write!(o, "\\u{:04x}", u);
                            }
                        }
                        c => o.push(c),
                    }
                }
                o.push('"');
            }
            Json::Arr(v) => {
                o.push('[');
                for (i, x) in v.iter().enumerate() {
                    if i > 0 {
                        o.push(',');
                    }
                    x.write(o);
                }
                o.push(']');
            }
            Json::Obj(v) => {
                o.push('{');
                for (i, (k, x)) in v.iter().enumerate() {
                    if i > 0 {
                        o.push(',');
                    }
                    Json::Str(k.clone()).write(o);
                    o.push(':');
                    x.write(o);
                }
                o.push('}');
            }
        }
    }
    pub fn to_string(&self) -> String {
        let mut o = String::new();
        self.write(&mut o);
        o
    }
}

// ------------------------------------------------------------ recorder ----

#[derive(Clone, Debug)]
pub struct Witness {
    /// operation / call site observed
    pub op: String,
    /// replayable literal encoding of the case (monitor specific, escaped)
    pub case: String,
    pub expected: String,
    pub observed: String,
}

#[derive(Default)]
pub struct Rec {
    pub evaluations: u64,
    /// hashes of the distinct non-trivial cases seen (deduplicated lazily)
    pub nontrivial: Vec<u64>,
    pub hist: BTreeMap<String, u64>,
    pub samples: BTreeMap<String, Vec<String>>,
    /// signature -> (count, first witnesses)
    pub violations: BTreeMap<String, (u64, Vec<Witness>)>,
    pub notes: Vec<String>,
    pub exhaustive_parts: Vec<String>,
}

pub const MAX_WITNESSES: usize = 5;
pub const MAX_SAMPLES: usize = 3;

impl Rec {
    pub fn new() -> Rec {
        Rec::default()
    }
    #[inline]
    pub fn eval(&mut self) {
        self.evaluations += 1;
    }
    #[inline]
    pub fn evals(&mut self, n: u64) {
        self.evaluations += n;
    }
    #[inline]
    pub fn count(&mut self, class: &str) {
        if let Some(c) = self.hist.get_mut(class) {
            *c += 1;
        } else {
            self.hist.insert(class.to_string(), 1);
        }
    }
    pub fn count_n(&mut self, class: &str, n: u64) {
        *self.hist.entry(class.to_string()).or_insert(0) += n;
    }
    /// a distinct non-trivial case: `key` identifies the case, `class` is its histogram bucket
    pub fn nontrivial<K: Hash, F: FnOnce() -> String>(&mut self, class: &str, key: &K, sample: F) {
        self.count(class);
        self.nontrivial.push(hash_of(key));
        if self.nontrivial.len() >= (1 << 25) && self.nontrivial.len().is_power_of_two() {
            self.compact();
        }
        let e = self.samples.entry(class.to_string()).or_default();
        if e.len() < MAX_SAMPLES {
            e.push(sample());
        }
    }
    pub fn sample<F: FnOnce() -> String>(&mut self, class: &str, sample: F) {
        let e = self.samples.entry(class.to_string()).or_default();
        if e.len() < MAX_SAMPLES {
            e.push(sample());
        }
    }
    pub fn violation(&mut self, signature: &str, w: Witness) {
        let e = self.violations.entry(signature.to_string()).or_insert((0, Vec::new()));
        e.0 += 1;
        if e.1.len() < MAX_WITNESSES {
            e.1.push(w);
        }
    }
    pub fn note<T: Into<String>>(&mut self, t: T) {
        let t = t.into();
        if !self.notes.contains(&t) {
            self.notes.push(t);
        }
    }
    pub fn exhaustive<T: Into<String>>(&mut self, t: T) {
        let t = t.into();
        if !self.exhaustive_parts.contains(&t) {
            self.exhaustive_parts.push(t);
        }
    }
    pub fn merge(&mut self, o: Rec) {
        self.evaluations += o.evaluations;
        if self.nontrivial.is_empty() {
            self.nontrivial = o.nontrivial;
        } else {
            self.nontrivial.extend(o.nontrivial);
        }
        if self.nontrivial.len() >= (1 << 27) {
            self.compact();
        }
        for (k, v) in o.hist {
            *self.hist.entry(k).or_insert(0) += v;
        }
        for (k, v) in o.samples {
            let e = self.samples.entry(k).or_default();
            for s in v {
                if e.len() < MAX_SAMPLES && !e.contains(&s) {
                    e.push(s);
                }
            }
        }
        for (k, (n, ws)) in o.violations {
            let e = self.violations.entry(k).or_insert((0, Vec::new()));
            e.0 += n;
            for w in ws {
                if e.1.len() < MAX_WITNESSES {
                    e.1.push(w);
                }
            }
        }
        for n in o.notes {
            self.note(n);
        }
        for n in o.exhaustive_parts {
            self.exhaustive(n);
        }
    }
    pub fn compact(&mut self) {
        self.nontrivial.sort_unstable();
        self.nontrivial.dedup();
    }
    /// number of distinct non-trivial cases
    pub fn distinct(&mut self) -> usize {
        self.compact();
        self.nontrivial.len()
    }
    pub fn n_violations(&self) -> u64 {
        self.violations.values().map(|v| v.0).sum()
    }

    pub fn to_json(&mut self, property: &str, tier: &str, seed: u64, wall_s: f64) -> Json {
        self.compact();
        let hist = Json::Obj(self.hist.iter().map(|(k, v)| (k.clone(), Json::Int(*v as i64))).collect());
        let mut samples = Vec::new();
        for (k, v) in &self.samples {
            for s in v {
                samples.push(Json::obj(vec![("class", Json::s(k.clone())), ("case", Json::s(s.clone()))]));
            }
        }
        let mut viol = Vec::new();
        for (sig, (n, ws)) in &self.violations {
            let w: Vec<Json> = ws
                .iter()
                .map(|w| {
                    Json::obj(vec![
                        ("op", Json::s(w.op.clone())),
                        ("case", Json::s(w.case.clone())),
                        ("expected", Json::s(w.expected.clone())),
                        ("observed", Json::s(w.observed.clone())),
                    ])
                })
                .collect();
            viol.push(Json::obj(vec![
                ("signature", Json::s(sig.clone())),
                ("count", Json::Int(*n as i64)),
                ("witnesses", Json::Arr(w)),
            ]));
        }
        Json::obj(vec![
            ("property", Json::s(property)),
            ("tier", Json::s(tier)),
            ("seed", Json::Int(seed as i64)),
            ("evaluations", Json::Int(self.evaluations as i64)),
            ("distinct_nontrivial", Json::Int(self.nontrivial.len() as i64)),
            ("histogram", hist),
            ("samples", Json::Arr(samples)),
            ("violations", Json::Arr(viol)),
            ("exhaustive_parts", Json::Arr(self.exhaustive_parts.iter().map(|s| Json::s(s.clone())).collect())),
            ("notes", Json::Arr(self.notes.iter().map(|s| Json::s(s.clone())).collect())),
            ("wall_s", Json::Num(wall_s)),
        ])
    }
}

// ------------------------------------------------------ parallel runner ----

pub fn n_threads() -> usize {
    std::env::var("VERIF_THREADS")
        .ok()
        .and_then(|s| s.parse().ok())
        .unwrap_or_else(|| std::thread::available_parallelism().map(|n| n.get()).unwrap_or(4))
        .max(1)
}

/// Run `f(chunk_index, rec)` for every chunk in 0..n_chunks on a pool of
/// threads; each thread owns a recorder; they are merged at the end.
pub fn par<F>(n_chunks: usize, f: F) -> Rec
where
    F: Fn(usize, &mut Rec) + Sync,
{
    let next = AtomicUsize::new(0);
    let nt = n_threads().min(n_chunks.max(1));
    let mut total = Rec::new();
    std::thread::scope(|sc| {
        let mut hs = Vec::new();
        for _ in 0..nt {
            hs.push(sc.spawn(|| {
                let mut rec = Rec::new();
                loop {
                    let i = next.fetch_add(1, Ordering::Relaxed);
                    if i >= n_chunks {
                        break;
                    }
                    f(i, &mut rec);
                }
                rec
            }));
        }
        for h in hs {
            match h.join() {
                Ok(r) => total.merge(r),
                Err(_) => total.note("HARNESS-ERROR: a worker thread panicked outside catch_unwind"),
            }
        }
    });
    total
}

/// Enumerate all strings over `alphabet` of length 0..=max_len; index <-> string.
pub fn n_strings(k: usize, max_len: usize) -> usize {
    let mut t = 0usize;
    let mut p = 1usize;
    for _ in 0..=max_len {
        t += p;
        p *= k;
    }
    t
}

pub fn nth_seq(k: usize, mut idx: usize, out: &mut Vec<usize>) {
    // idx 0 = empty; then length 1 ..., in base-k order
    out.clear();
    let mut len = 0usize;
    let mut p = 1usize;
    while idx >= p {
        idx -= p;
        p *= k;
        len += 1;
    }
    for _ in 0..len {
        out.push(idx % k);
        idx /= k;
    }
    out.reverse();
}
