//! C10 - case mapping lower-cases every character wherever it stands

use crate::api::{self, Out, Prof, RuleK};
use crate::gen;
use crate::refmodel;
use crate::ucd::NCP;
use crate::util::{self, par, Rec, Rng, Witness};
use crate::Env;

fn changes(c: char) -> bool {
    !c.to_lowercase().eq(std::iter::once(c))
}

pub fn check(env: &Env, s: &str, rec: &mut Rec) {
    let _ = env;
    let want = refmodel::lower(s);
    for p in [Prof::Ucm, Prof::Nick] {
        let got = api::rule(p, RuleK::Case, s);
        rec.eval();
        let owned = api::rule_owned(p, RuleK::Case, s);
        rec.eval();
        if owned != got {
            rec.violation(
                "case-mapping-owned-argument-differs",
                Witness {
                    op: format!("{}::case_mapping_rule(String) vs (&str)", p.name()),
                    case: format!("label={}", util::esc(s)),
                    expected: api::show_r(&got),
                    observed: api::show_r(&owned),
                },
            );
        }
        if got != Out::Ok(want.clone()) {
            rec.violation(
                "case-mapping-differs-from-per-character-lowercase",
                Witness {
                    op: format!("{}::case_mapping_rule", p.name()),
                    case: format!("label={}", util::esc(s)),
                    expected: format!("Ok(\"{}\")", util::esc(&want)),
                    observed: api::show_r(&got),
                },
            );
        }
    }
    // histogram: first character that has a mapping, and what precedes it
    let cs: Vec<char> = s.chars().collect();
    match cs.iter().position(|c| changes(*c)) {
        None => rec.count("nothing-to-map"),
        Some(i) => {
            let c = cs[i];
            let kind = if c.is_uppercase() { "uppercase" } else { "non-uppercase(titlecase/other)" };
            // is there a mapped non-uppercase character with no uppercase letter before it?
            let mut seen_upper = false;
            let mut lone = false;
            for c in &cs {
                if c.is_uppercase() {
                    seen_upper = true;
                } else if changes(*c) && !seen_upper {
                    lone = true;
                }
            }
            let class = format!(
                "mapped:first-is-{}:{}{}",
                kind,
                if i == 0 { "at-0" } else { "after-prefix" },
                if lone { ":non-uppercase-before-any-uppercase" } else { "" }
            );
            rec.nontrivial(&class, &s, || util::esc(s));
        }
    }
}

/// profile level effect on accepted strings
fn check_profiles(env: &Env, s: &str, rec: &mut Rec) {
    let _ = env;
    // UsernameCaseMapped::enforce(s) must be insensitive to pre-lowercasing when both are accepted
    let a = api::enforce(Prof::Ucm, s);
    rec.eval();
    if let Out::Ok(x) = &a {
        // result contains no character that still has a lowercase mapping ... after NFC of the lowercased string
        let want = refmodel::nfc(&refmodel::lower(&refmodel::width(env.d16(), s)));
        if *x != want {
            rec.violation(
                "ucm-enforce-not-lowercased",
                Witness {
                    op: "UsernameCaseMapped::enforce".into(),
                    case: format!("label={}", util::esc(s)),
                    expected: format!("Ok(\"{}\")", util::esc(&want)),
                    observed: api::show_r(&a),
                },
            );
        }
        rec.nontrivial("profile:ucm-enforce-accepted", &("ucm", s), || util::esc(s));
    }
    // Nickname::compare(s, lower(s)) is true whenever both sides are accepted
    let l = refmodel::lower(s);
    if l != s {
        let c = api::compare(Prof::Nick, s, &l);
        rec.eval();
        if c == Out::Ok(false) {
            rec.violation(
                "nickname-compare-distinguishes-case",
                Witness {
                    op: "Nickname::compare(s, lowercase(s))".into(),
                    case: format!("label={}", util::esc(s)),
                    expected: "Ok(true) or an error".into(),
                    observed: api::show(&c),
                },
            );
        }
        if c == Out::Ok(true) {
            rec.nontrivial("profile:nickname-compare-case-variants-equal", &("nick", s), || util::esc(s));
        }
    }
}

const ALPHA: [char; 11] =
    ['a', 'A', '\u{1C5}', '\u{1F88}', '\u{130}', '\u{3A3}', '\u{DF}', '1', '\u{E9}', '\u{FF21}', '\u{1D400}'];

pub fn run(env: &Env) -> Rec {
    let mut rec = Rec::new();
    // cross-check of the oracle itself against UnicodeData 16.0.0 (a note, never a verdict)
    let d16 = env.d16();
    let mut skew = 0u64;
    for (cp, lc) in &d16.ud.lower {
        if let (Some(c), Some(l)) = (char::from_u32(*cp), char::from_u32(*lc)) {
            if *cp != 0x130 && !c.to_lowercase().eq(std::iter::once(l)) {
                skew += 1;
            }
        }
    }
    rec.count_n("oracle-crosscheck:std lowercase differs from UnicodeData-16.0.0 simple mapping", skew);
    if skew > 0 {
        rec.note(format!("std char::to_lowercase and UnicodeData 16.0.0 simple lowercase differ on {} code points (toolchain Unicode version skew; the README defines the mapping by std)", skew));
    }
    let chunk = 0x400usize;
    let r1 = par(NCP / chunk, |i, rec| {
        let mut s = String::new();
        for cp in (i * chunk) as u32..((i + 1) * chunk) as u32 {
            if let Some(c) = char::from_u32(cp) {
                for t in 0..7 {
                    s.clear();
                    match t {
                        0 => s.push(c),
                        1 => {
                            s.push('a');
                            s.push(c)
                        }
                        2 => {
                            s.push('A');
                            s.push(c)
                        }
                        3 => {
                            s.push(c);
                            s.push('A')
                        }
                        4 => {
                            s.push('\u{E9}');
                            s.push(c);
                            s.push('z')
                        }
                        5 => {
                            s.push('\u{1C5}');
                            s.push(c)
                        }
                        _ => {
                            s.push(c);
                            s.push(c)
                        }
                    }
                    check(env, &s, rec);
                }
                // next to the code points that share its low 16 bits, both orders
                for k in 1..=2u32 {
                    if let Some(d) = char::from_u32(cp ^ (k << 16)) {
                        s.clear();
                        s.push(d);
                        s.push(c);
                        check(env, &s, rec);
                        s.clear();
                        s.push('A');
                        s.push(c);
                        s.push(d);
                        check(env, &s, rec);
                    }
                }
                if changes(c) {
                    s.clear();
                    s.push(c);
                    check_profiles(env, &s, rec);
                    s.insert(0, 'x');
                    check_profiles(env, &s, rec);
                }
            }
        }
    });
    rec.merge(r1);
    rec.exhaustive("every Unicode scalar value c in the contexts c, a c, A c, c A, e-acute c z, U+01C5 c, c c");
    let max_len = if env.quick() { 6 } else { 7 };
    let k = ALPHA.len();
    let total = util::n_strings(k, max_len);
    let per = 4096usize;
    let r2 = par(total.div_ceil(per), |c, rec| {
        let mut idx = Vec::new();
        for n in c * per..((c + 1) * per).min(total) {
            util::nth_seq(k, n, &mut idx);
            let s = gen::string_from_indices(&ALPHA, &idx);
            check(env, &s, rec);
            if n % 16 == 0 {
                check_profiles(env, &s, rec);
            }
        }
    });
    rec.merge(r2);
    rec.exhaustive(format!("all strings up to length {} over 11 cased/uncased symbols incl. titlecase, U+0130, sigma, sharp s, 4-byte capital", max_len));
    let n = env.n(1_000_000, 30_000_000);
    let per = 2000usize;
    let r3 = par(n.div_ceil(per), |c, rec| {
        let mut rng = Rng::stream(env.seed, 0x10_0000 + c as u64);
        let p = env.pools();
        for j in 0..per {
            let s = match j % 3 {
                0 => gen::random_string(p, &mut rng, gen::MIX_USERNAME, 24),
                1 => gen::random_string(p, &mut rng, gen::MIX_FREEFORM, 24),
                _ => {
                    let b = gen::name_like(p, &mut rng, 10);
                    env.var().variant(p, &mut rng, &b)
                }
            };
            check(env, &s, rec);
            check_profiles(env, &s, rec);
        }
    });
    rec.merge(r3);
    let n_long = env.n(15_000, 500_000);
    let per = 200usize;
    let r4 = par(n_long.div_ceil(per), |c, rec| {
        let mut rng = Rng::stream(env.seed, 0x10_C000 + c as u64);
        let p = env.pools();
        super::hostile::drive(
            &mut rng,
            per,
            65536,
            |rng| {
                let mut t = String::new();
                for _ in 0..rng.range(1, 3) {
                    let k = *rng.pick(&[gen::Kind::Cased, gen::Kind::Title, gen::Kind::AsciiUpper, gen::Kind::SpecialWord, gen::Kind::Upper, gen::Kind::Letter]);
                    gen::push_kind(p, rng, k, &mut t);
                }
                t
            },
            |s| check(env, s, rec),
        );
    });
    rec.merge(r4);
    rec
}

pub fn replay(env: &Env, _op: &str, case: &str) -> Rec {
    let mut rec = Rec::new();
    match super::kv_get_last(case, "label").and_then(util::unesc) {
        Some(s) => {
            check(env, &s, &mut rec);
            check_profiles(env, &s, &mut rec);
        }
        None => rec.note("HARNESS-ERROR: cannot parse replay case"),
    }
    rec
}
