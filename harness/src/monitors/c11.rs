//! C11 - width mapping replaces exactly the wide/narrow compatibility characters

use crate::api::{self, Out, Prof, RuleK};
use crate::gen;
use crate::refmodel;
use crate::ucd::NCP;
use crate::util::{self, par, Rec, Rng, Witness};
use crate::Env;

pub fn check(env: &Env, s: &str, rec: &mut Rec) {
    let d16 = env.d16();
    let want = refmodel::width(d16, s);
    let mut first = None;
    for (i, c) in s.chars().enumerate() {
        if d16.width.contains_key(&(c as u32)) {
            first = Some(i);
            break;
        }
    }
    for p in [Prof::Ucm, Prof::Ucp] {
        let got = api::rule(p, RuleK::Width, s);
        rec.eval();
        let owned = api::rule_owned(p, RuleK::Width, s);
        rec.eval();
        if owned != got {
            rec.violation(
                "width-mapping-owned-argument-differs",
                Witness {
                    op: format!("{}::width_mapping_rule(String) vs (&str)", p.name()),
                    case: format!("label={}", util::esc(s)),
                    expected: api::show_r(&got),
                    observed: api::show_r(&owned),
                },
            );
        }
        if got != Out::Ok(want.clone()) {
            rec.violation(
                "width-mapping-differs-from-unicode-wide-narrow-decomposition",
                Witness {
                    op: format!("{}::width_mapping_rule", p.name()),
                    case: format!("label={}", util::esc(s)),
                    expected: format!("Ok(\"{}\")", util::esc(&want)),
                    observed: api::show_r(&got),
                },
            );
            continue;
        }
        // idempotent
        if let Out::Ok(o) = &got {
            let again = api::rule(p, RuleK::Width, o);
            rec.eval();
            if again != got {
                rec.violation(
                    "width-mapping-not-idempotent",
                    Witness {
                        op: format!("{}::width_mapping_rule twice", p.name()),
                        case: format!("label={}", util::esc(s)),
                        expected: api::show_r(&got),
                        observed: api::show_r(&again),
                    },
                );
            }
        }
        // prepare, when it accepts, returns exactly the width-mapped string
        let prep = api::prepare(p, s);
        rec.eval();
        if let Out::Ok(x) = &prep {
            if *x != want {
                rec.violation(
                    "prepare-result-is-not-the-width-mapped-input",
                    Witness {
                        op: format!("{}::prepare", p.name()),
                        case: format!("label={}", util::esc(s)),
                        expected: format!("Ok(\"{}\")", util::esc(&want)),
                        observed: api::show_r(&prep),
                    },
                );
            }
        }
    }
    match first {
        Some(i) => {
            let multibyte_prefix = s.chars().take(i).any(|c| c.len_utf8() > 1);
            let class = format!(
                "mapped:first-at-{}{}",
                match i {
                    0 => "0",
                    1 => "1",
                    _ => "2+",
                },
                if multibyte_prefix { ":after-multibyte" } else { "" }
            );
            rec.nontrivial(&class, &s, || util::esc(s));
        }
        None => {
            if s.chars().any(|c| refmodel::has_compat(c as u32)) {
                rec.nontrivial("unmapped:other-compat-character-kept", &s, || util::esc(s));
            } else {
                rec.count("unmapped:plain");
            }
        }
    }
}

const ALPHA: [char; 8] = ['a', '\u{FF21}', '\u{FF76}', '\u{FF9E}', '\u{FFE0}', '\u{2460}', '\u{E9}', '\u{1F600}'];

pub fn run(env: &Env) -> Rec {
    let mut rec = Rec::new();
    let chunk = 0x400usize;
    let r1 = par(NCP / chunk, |i, rec| {
        let mut s = String::new();
        for cp in (i * chunk) as u32..((i + 1) * chunk) as u32 {
            if let Some(c) = char::from_u32(cp) {
                for t in 0..5 {
                    s.clear();
                    match t {
                        0 => s.push(c),
                        1 => {
                            s.push('x');
                            s.push(c)
                        }
                        2 => {
                            s.push('\u{FF21}');
                            s.push(c)
                        }
                        3 => {
                            s.push(c);
                            s.push('\u{FF21}')
                        }
                        _ => {
                            s.push('\u{E9}');
                            s.push(c);
                            s.push(c)
                        }
                    }
                    check(env, &s, rec);
                }
                for k in 1..=2u32 {
                    if let Some(d) = char::from_u32(cp ^ (k << 16)) {
                        s.clear();
                        s.push(d);
                        s.push(c);
                        check(env, &s, rec);
                        s.clear();
                        s.push('\u{FF21}');
                        s.push(c);
                        s.push(d);
                        check(env, &s, rec);
                    }
                }
            }
        }
    });
    rec.merge(r1);
    rec.exhaustive("every Unicode scalar value c in the contexts c, x c, FF21 c, c FF21, e-acute c c");
    let max_len = if env.quick() { 7 } else { 8 };
    let k = ALPHA.len();
    let total = util::n_strings(k, max_len);
    let per = 4096usize;
    let r2 = par(total.div_ceil(per), |c, rec| {
        let mut idx = Vec::new();
        for n in c * per..((c + 1) * per).min(total) {
            util::nth_seq(k, n, &mut idx);
            check(env, &gen::string_from_indices(&ALPHA, &idx), rec);
        }
    });
    rec.merge(r2);
    rec.exhaustive(format!("all strings up to length {} over {{a, FF21, FF76, FF9E, FFE0, 2460, E9, 1F600}}", max_len));
    let n = env.n(1_000_000, 30_000_000);
    let per = 2000usize;
    let r3 = par(n.div_ceil(per), |c, rec| {
        let mut rng = Rng::stream(env.seed, 0x11_0000 + c as u64);
        for j in 0..per {
            let s = gen::random_string(env.pools(), &mut rng, if j % 2 == 0 { gen::MIX_USERNAME } else { gen::MIX_HOSTILE }, 24);
            check(env, &s, rec);
        }
    });
    rec.merge(r3);
    let n_long = env.n(15_000, 500_000);
    let per = 200usize;
    let r4 = par(n_long.div_ceil(per), |c, rec| {
        let mut rng = Rng::stream(env.seed, 0x11_C000 + c as u64);
        let p = env.pools();
        super::hostile::drive(
            &mut rng,
            per,
            65536,
            |rng| {
                let mut t = String::new();
                for _ in 0..rng.range(1, 3) {
                    let k = *rng.pick(&[gen::Kind::Width, gen::Kind::Width, gen::Kind::NfkcDiff, gen::Kind::Letter, gen::Kind::FourByte]);
                    gen::push_kind(p, rng, k, &mut t);
                }
                t
            },
            |s| check(env, s, rec),
        );
    });
    rec.merge(r4);
    rec
}

pub fn replay(env: &Env, _op: &str, case: &str) -> Rec {
    let mut rec = Rec::new();
    match super::kv_get_last(case, "label").and_then(util::unesc) {
        Some(s) => check(env, &s, &mut rec),
        None => rec.note("HARNESS-ERROR: cannot parse replay case"),
    }
    rec
}
