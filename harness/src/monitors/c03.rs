//! C03 - context rules decide exactly RFC 5892 Appendix A (Unicode 6.3.0 data)

use crate::api::{self, Ctx, Out, RULE_NAMES};
use crate::gen;
use crate::refmodel::{self, Abs, Tri};
use crate::ucd::{self, NCP};
use crate::util::{self, par, Rec, Rng, Witness};
use crate::Env;

const D: u32 = 0x0628; // ARABIC LETTER BEH, Joining_Type D in 6.3.0

pub fn label_string(l: &[u32]) -> Option<String> {
    l.iter().map(|c| char::from_u32(*c)).collect()
}

/// evaluate rule `idx` of the library at (label, pos) against the reference
pub fn check_rule(env: &Env, idx: usize, l: &[u32], s: &str, pos: usize, rec: &mut Rec, count_nontrivial: bool) {
    let want = refmodel::ctx_rule(env.d6(), idx, l, pos);
    let got = api::ctx_rule(idx, s, pos);
    rec.eval();
    let ok = matches!(&got, Out::Ok(c) if refmodel::tri_accepts(want, *c));
    if count_nontrivial && want != Tri::NotApplicable && pos < l.len() {
        let class = match (&want, &got) {
            (Tri::FalseOrUndefined, Out::Ok(Ctx::False)) => format!("{}:edge-or-runoff(lib=false)", RULE_NAMES[idx]),
            (Tri::FalseOrUndefined, Out::Ok(Ctx::Undefined)) => format!("{}:edge-or-runoff(lib=undefined)", RULE_NAMES[idx]),
            (w, _) => format!("{}:{:?}", RULE_NAMES[idx], w),
        };
        rec.nontrivial(&class, &(idx, s, pos), || format!("rule={} pos={} label={}", RULE_NAMES[idx], pos, util::esc(s)));
    }
    if !ok {
        rec.violation(
            &format!("context-rule-{}-differs-from-rfc5892", RULE_NAMES[idx]),
            Witness {
                op: format!("rule_{}", RULE_NAMES[idx]),
                case: format!("rule={};pos={};label={}", idx, pos, util::esc(s)),
                expected: format!("{:?}", want),
                observed: api::show(&got),
            },
        );
    }
    // the registry must hand out the same rule for the code point at pos
    if pos < l.len() && want != Tri::NotApplicable {
        let cp = l[pos];
        let via = api::ctx_registry(cp, s, pos);
        rec.eval();
        let same = match (&via, &got) {
            (Out::Ok(Some(a)), Out::Ok(b)) => a == b,
            _ => false,
        };
        if !same {
            rec.violation(
                "context-rule-registry-returns-another-rule",
                Witness {
                    op: "get_context_rule".into(),
                    case: format!("rule={};pos={};label={}", idx, pos, util::esc(s)),
                    expected: format!("Some(rule) answering {}", api::show(&got)),
                    observed: api::show(&via),
                },
            );
        }
    }
}

fn roles(c: u32) -> [(usize, Vec<u32>, usize); 17] {
    const L: u32 = 0x6c;
    [
        (0, vec![c, 0x200C], 1),
        (0, vec![c, 0x200C, D], 1),
        (0, vec![D, 0x200C, c], 1),
        (0, vec![D, c, 0x200C, D], 2),
        (0, vec![D, 0x200C, c, D], 1),
        (1, vec![c, 0x200D], 1),
        (2, vec![c, 0xB7, L], 1),
        (2, vec![L, 0xB7, c], 1),
        (3, vec![0x375, c], 0),
        (4, vec![c, 0x5F3], 1),
        (4, vec![c, 0x5F4], 1),
        (5, vec![0x30FB, c], 0),
        (5, vec![c, 0x30FB], 1),
        (6, vec![0x660, c], 0),
        (6, vec![c, 0x669], 1),
        (7, vec![0x6F0, c], 0),
        (7, vec![c, 0x6F9], 1),
    ]
}

pub fn run(env: &Env) -> Rec {
    let d6 = env.d6();
    let mut rec = Rec::new();
    // (a) every scalar value in every inspected role
    let chunk = 0x400usize;
    let ra = par(NCP / chunk, |i, rec| {
        for c in (i * chunk) as u32..((i + 1) * chunk) as u32 {
            if char::from_u32(c).is_none() {
                continue;
            }
            for (idx, l, pos) in roles(c) {
                let s = label_string(&l).unwrap();
                check_rule(env, idx, &l, &s, pos, rec, true);
            }
        }
    });
    rec.merge(ra);
    rec.exhaustive("every Unicode scalar value as the inspected neighbour in 17 roles (A.1-A.9)");

    // (b) exhaustive arrangements over joining-type representatives
    // L, D, R, T, U (non joining), virama, ZWNJ, ZWJ
    let jl = d6.jt_l.iter().next().unwrap_or(0xA872);
    let reps: [u32; 8] = [jl, D, 0x0627, 0x064B, 0x61, 0x094D, 0x200C, 0x200D];
    assert!(d6.jt_d.has(D) && d6.jt_r.has(0x627) && d6.jt_t.has(0x64B) && d6.virama.has(0x94D), "representatives");
    let plan: Vec<(usize, usize)> = if env.quick() { vec![(8, 7), (7, 8)] } else { vec![(8, 8), (7, 9)] };
    for (k, max_len) in plan {
        let total = util::n_strings(k, max_len);
        let per = 4096usize;
        let rb = par(total.div_ceil(per), |c, rec| {
            let mut idxs = Vec::new();
            let mut rng = Rng::stream(env.seed, 0x03_0000 + c as u64);
            let pools = env.pools();
            for n in c * per..((c + 1) * per).min(total) {
                util::nth_seq(k, n, &mut idxs);
                let l: Vec<u32> = idxs.iter().map(|i| reps[*i]).collect();
                let s = label_string(&l).unwrap();
                for pos in (0..=l.len() + 1).chain([usize::MAX, usize::MAX - 1, isize::MAX as usize]) {
                    check_rule(env, 0, &l, &s, pos, rec, true);
                    check_rule(env, 1, &l, &s, pos, rec, true);
                }
                // the same arrangement with random members of each class (every 8th, to bound cost)
                if n % 8 == 0 && !l.is_empty() {
                    let l2: Vec<u32> = idxs
                        .iter()
                        .map(|i| match *i {
                            0 => *rng.pick(&pools.jt_l) as u32,
                            1 => *rng.pick(&pools.jt_d) as u32,
                            2 => *rng.pick(&pools.jt_r) as u32,
                            3 => *rng.pick(&pools.jt_t) as u32,
                            4 => *rng.pick(&pools.pvalid_letters) as u32,
                            5 => *rng.pick(&pools.viramas) as u32,
                            j => reps[j],
                        })
                        .collect();
                    let s2 = label_string(&l2).unwrap();
                    for pos in 0..l2.len() {
                        check_rule(env, 0, &l2, &s2, pos, rec, true);
                        check_rule(env, 1, &l2, &s2, pos, rec, true);
                    }
                }
            }
        });
        rec.merge(rb);
        rec.exhaustive(format!(
            "all arrangements of {} joining-type symbols (L,D,R,T,non-joining,virama,ZWNJ{}) up to length {}, rules A.1/A.2 at every position incl. outside the label",
            k,
            if k == 8 { ",ZWJ" } else { "" },
            max_len
        ));
    }

    // (b2) long runs of transparent characters on either side of ZWNJ (k, m up to 70), joining and non-joining ends
    let tmarks: [u32; 3] = [0x064E, 0x0300, 0x094D];
    let rb2 = par(71, |k, rec| {
        for m in 0..=70usize {
            for (li, left) in [D, 0x0627, 0x61].iter().enumerate() {
                for right in [D, 0x0627, 0x61] {
                    let t = tmarks[(k + m + li) % 2];
                    let mut l: Vec<u32> = vec![*left];
                    l.extend(std::iter::repeat(t).take(k));
                    l.push(0x200C);
                    l.extend(std::iter::repeat(t).take(m));
                    l.push(right);
                    let s = label_string(&l).unwrap();
                    check_rule(env, 0, &l, &s, k + 1, rec, true);
                    if m % 16 == 0 {
                        // and without the closing letter: the scan runs off the end
                        let l2 = &l[..l.len() - 1];
                        let s2 = label_string(l2).unwrap();
                        check_rule(env, 0, l2, &s2, k + 1, rec, true);
                    }
                }
            }
        }
    });
    rec.merge(rb2);
    rec.exhaustive("ZWNJ between runs of k and m transparent marks, k,m in 0..=70, with D / R / non-joining letters at both ends");

    // (b3) long labels: contextual characters and the characters their rules look for at and around
    // power-of-two byte offsets; same-length variants presented from one reused buffer
    let n_long = env.n(15_000, 500_000);
    let per = 200usize;
    let rb3 = par(n_long.div_ceil(per), |c, rec| {
        let mut rng = Rng::stream(env.seed, 0x03_C000 + c as u64);
        let p = env.pools();
        super::hostile::drive(
            &mut rng,
            per,
            65536,
            |rng| match rng.below(5) {
                0 => gen::contextual_label(p, rng),
                1 => rng.pick(&p.context).to_string(),
                2 => rng.pick(&p.kana_han).to_string(),
                3 => {
                    let v = if rng.chance(1, 2) { &p.arabic_digits } else { &p.ext_arabic_digits };
                    rng.pick(v).to_string()
                }
                _ => String::new(),
            },
            |s| {
                let l: Vec<u32> = s.chars().map(|c| c as u32).collect();
                let mut done = 0;
                for (pos, cp) in l.iter().enumerate() {
                    if let Some(idx) = refmodel::rule_of(*cp) {
                        check_rule(env, idx, &l, s, pos, rec, true);
                        done += 1;
                        if done >= 6 {
                            break;
                        }
                    }
                }
            },
        );
    });
    rec.merge(rb3);

    // (c) all eight rules at every position of random / constructive / mutated labels
    let n_rand = env.n(1_500_000, 40_000_000);
    let per = 2000usize;
    let rc = par(n_rand.div_ceil(per), |c, rec| {
        let mut rng = Rng::stream(env.seed, 0x03_8000 + c as u64);
        let p = env.pools();
        for j in 0..per {
            let mut s = match j % 4 {
                0 => gen::contextual_label(p, &mut rng),
                1 => {
                    let b = gen::contextual_label(p, &mut rng);
                    gen::mutate(p, &mut rng, &b, gen::MIX_HOSTILE)
                }
                2 => {
                    // whole-label scans: deciding character at a random position
                    let mut t = String::new();
                    let n = rng.range(1, 12);
                    let at = rng.below(n);
                    for q in 0..n {
                        if q == at {
                            t.push(*rng.pick(&p.context));
                        } else {
                            let k = *rng.pick(&[gen::Kind::Script, gen::Kind::AsciiLower, gen::Kind::Context, gen::Kind::Letter]);
                            gen::push_kind(p, &mut rng, k, &mut t);
                        }
                    }
                    t
                }
                _ => gen::random_string(p, &mut rng, gen::MIX_HOSTILE, 12),
            };
            if rng.chance(1, 3) {
                s = gen::mutate(p, &mut rng, &s, gen::MIX_USERNAME);
            }
            let l: Vec<u32> = s.chars().map(|c| c as u32).collect();
            for pos in 0..=l.len() {
                for idx in 0..8 {
                    check_rule(env, idx, &l, &s, pos, rec, true);
                }
            }
        }
    });
    rec.merge(rc);

    // (d) registry: exactly the CONTEXTJ / CONTEXTO code points of the IANA registry have a rule
    let rows = ucd::parse_csv(&ucd::csv_path());
    let csv = match refmodel::csv_table(&rows) {
        Ok(t) => t,
        Err(e) => {
            rec.note(format!("HARNESS-ERROR: registry snapshot incomplete: {}", e));
            return rec;
        }
    };
    let rd = par(NCP / 0x1000, |i, rec| {
        for cp in (i * 0x1000) as u32..((i + 1) * 0x1000) as u32 {
            check_registry(cp, matches!(csv[cp as usize], Abs::ContextJ | Abs::ContextO), rec);
        }
    });
    rec.merge(rd);
    rec.exhaustive("get_context_rule for every value 0..=0x10FFFF vs CONTEXTJ/CONTEXTO in the IANA registry");
    let mut rng = Rng::stream(env.seed, 0x03_FFFF);
    for cp in [0x110000u32, 0x11200C, 0x20200D, u32::MAX, 0x8000_00B7, 0x1_0000 + 0x200C] {
        check_registry(cp, false, &mut rec);
    }
    for _ in 0..env.n(1_000_000, 50_000_000) {
        let cp = 0x110000u32 + (rng.next() % (u32::MAX as u64 - 0x110000 + 1)) as u32;
        check_registry(cp, false, &mut rec);
    }
    rec
}

fn check_registry(cp: u32, want: bool, rec: &mut Rec) {
    let got = api::ctx_registered(cp);
    rec.eval();
    if got != Out::Ok(want) {
        rec.violation(
            "context-rule-registry-membership",
            Witness {
                op: "get_context_rule".into(),
                case: format!("cp={:X}", cp),
                expected: format!("registered={}", want),
                observed: api::show(&got),
            },
        );
        return;
    }
    if want {
        if let Some(c) = char::from_u32(cp) {
            let s = c.to_string();
            let r = api::ctx_registry(cp, &s, 0);
            rec.eval();
            rec.nontrivial("registry:rule-applies-to-its-code-point", &("reg", cp), || format!("U+{:04X}", cp));
            if matches!(r, Out::Ok(Some(Ctx::NotApplicable)) | Out::Ok(None) | Out::Panic(_)) {
                rec.violation(
                    "context-rule-registered-rule-not-applicable-to-its-code-point",
                    Witness {
                        op: "get_context_rule(cp)(label,0)".into(),
                        case: format!("cp={:X}", cp),
                        expected: "a rule that applies".into(),
                        observed: api::show(&r),
                    },
                );
            }
        }
    }
}

pub fn replay(env: &Env, _op: &str, case: &str) -> Rec {
    let mut rec = Rec::new();
    let label = super::kv_get_last(case, "label").and_then(util::unesc);
    let idx = super::kv_get(case, "rule").and_then(|s| s.parse::<usize>().ok());
    let pos = super::kv_get(case, "pos").and_then(|s| s.parse::<usize>().ok());
    match (label, idx, pos) {
        (Some(s), Some(idx), Some(pos)) if idx < 8 => {
            let l: Vec<u32> = s.chars().map(|c| c as u32).collect();
            check_rule(env, idx, &l, &s, pos, &mut rec, true);
        }
        _ => match super::kv_get(case, "cp").and_then(|s| u32::from_str_radix(s, 16).ok()) {
            Some(cp) => {
                let rows = ucd::parse_csv(&ucd::csv_path());
                let want = refmodel::csv_table(&rows)
                    .map(|t| (cp as usize) < NCP && matches!(t[cp as usize], Abs::ContextJ | Abs::ContextO))
                    .unwrap_or(false);
                check_registry(cp, want, &mut rec)
            }
            None => rec.note("HARNESS-ERROR: cannot parse replay case"),
        },
    }
    rec
}
