//! Hostile input shapes shared by the string monitors: long inputs whose
//! interesting characters sit at, or straddle, power-of-two byte offsets
//! (chunked fast paths, positions narrowed to u8/u16), and consecutive calls on
//! different strings of the same byte length in one reused buffer (what a cache
//! keyed by address and length would confuse).

use crate::util::Rng;

pub const BOUNDARIES: [usize; 16] = [8, 16, 16, 32, 32, 64, 64, 64, 128, 255, 256, 256, 512, 1024, 4096, 65536];

const POOL1: &[char] = &['a', 'b', 'l', 'z', 'A', 'Z', '0', '9', ' ', '-', '.', '_', '!'];
const POOL2: &[char] = &[
    '\u{E9}', '\u{C9}', '\u{3A3}', '\u{3C3}', '\u{3C2}', '\u{3B1}', '\u{660}', '\u{669}', '\u{6F0}', '\u{5D0}', '\u{5F3}', '\u{628}', '\u{627}',
    '\u{64B}', '\u{B7}', '\u{375}', '\u{A0}', '\u{301}', '\u{308}', '\u{1C5}', '\u{130}', '\u{DF}', '\u{A8}', '\u{AA}', '\u{7FA}',
];
const POOL3: &[char] = &[
    '\u{6F22}', '\u{3041}', '\u{30A2}', '\u{30FB}', '\u{94D}', '\u{915}', '\u{200C}', '\u{200D}', '\u{3000}', '\u{2003}', '\u{FF21}', '\u{FF41}',
    '\u{FF76}', '\u{FF9E}', '\u{20AC}', '\u{13A0}', '\u{1F88}', '\u{1E9E}', '\u{2163}', '\u{FDFA}', '\u{AC00}', '\u{1100}', '\u{3131}', '\u{FFFD}',
    '\u{800}', '\u{2460}',
];
const POOL4: &[char] = &['\u{1F600}', '\u{20000}', '\u{10400}', '\u{10428}', '\u{1D400}', '\u{10800}', '\u{E0001}', '\u{10FFFD}'];

fn pool(len: usize) -> &'static [char] {
    match len {
        1 => POOL1,
        2 => POOL2,
        3 => POOL3,
        _ => POOL4,
    }
}

/// filler characters that every profile and class accepts
/// (the two combining marks make long runs of marks: normaliser buffer limits)
const FILLERS: [char; 7] = ['a', 'a', '\u{E9}', '\u{6F22}', '\u{20000}', '\u{301}', '\u{334}'];

fn pad_to(s: &mut String, target_bytes: usize, filler: char) {
    while s.len() + filler.len_utf8() <= target_bytes {
        s.push(filler);
    }
    while s.len() < target_bytes {
        s.push('a');
    }
}

/// a + filler + b with `b` starting `d` bytes before a boundary (d in 0..=4), + optional tail
pub fn around_boundary(rng: &mut Rng, a: &str, b: &str, max_boundary: usize) -> String {
    let mut bd = *rng.pick(&BOUNDARIES);
    let mut guard = 0;
    while bd > max_boundary && guard < 20 {
        bd = *rng.pick(&BOUNDARIES);
        guard += 1;
    }
    let bd = bd.min(max_boundary.max(8));
    let d = rng.below(5);
    let filler = *rng.pick(&FILLERS);
    let mut s = String::from(a);
    let target = bd.saturating_sub(d).max(s.len());
    pad_to(&mut s, target, filler);
    s.push_str(b);
    match rng.below(4) {
        0 => {}
        1 => pad_to(&mut s, bd + rng.below(6), filler),
        2 => {
            let t = s.len() + rng.below(40);
            pad_to(&mut s, t, filler)
        }
        _ => {
            // total length itself at the next boundary
            let t = (s.len() / bd + 1) * bd - rng.below(2);
            pad_to(&mut s, t, 'a')
        }
    }
    s
}

/// a different string of exactly the same byte length: one character replaced
/// by another of the same UTF-8 length (prefer a non-filler character)
pub fn same_length_variant(rng: &mut Rng, s: &str) -> Option<String> {
    let cs: Vec<char> = s.chars().collect();
    if cs.is_empty() {
        return None;
    }
    let interesting: Vec<usize> = cs.iter().enumerate().filter(|(_, c)| !FILLERS.contains(c)).map(|(i, _)| i).collect();
    let i = if !interesting.is_empty() && rng.chance(3, 4) { *rng.pick(&interesting) } else { rng.below(cs.len()) };
    let p = pool(cs[i].len_utf8());
    for _ in 0..8 {
        let r = *rng.pick(p);
        if r != cs[i] {
            let t: String = cs.iter().enumerate().map(|(j, c)| if j == i { r } else { *c }).collect();
            debug_assert_eq!(t.len(), s.len());
            return Some(t);
        }
    }
    None
}

/// Block-structured strings: two to four runs, each of one filler type and of a byte length at or next to a
/// power of two, with cores between / after them ("16 ASCII bytes, then 18 bytes of CJK, then one space")
pub fn segments<C: FnMut(&mut Rng) -> String>(rng: &mut Rng, core: &mut C) -> String {
    const LENS: [usize; 20] = [1, 2, 3, 7, 8, 9, 15, 16, 16, 17, 31, 32, 32, 33, 63, 64, 65, 127, 128, 256];
    let mut s = String::new();
    let nseg = rng.range(2, 4);
    for k in 0..nseg {
        let filler = if k == 0 && rng.chance(1, 2) { 'a' } else { *rng.pick(&FILLERS) };
        let len = if rng.chance(1, 2) { *rng.pick(&[16usize, 32, 64, 18, 34]) } else { *rng.pick(&LENS) };
        let start = s.len();
        pad_to(&mut s, start + len, filler);
        if k + 1 < nseg && rng.chance(1, 2) {
            s.push_str(&core(rng));
        }
    }
    if rng.chance(2, 3) {
        s.push_str(&core(rng));
    }
    s
}

/// All strings of up to `max_len` macro symbols (each symbol a short string, e.g. a 16-byte ASCII block)
pub fn macro_enum<F: FnMut(&str)>(symbols: &[&str], max_len: usize, mut f: F) {
    let k = symbols.len();
    let total = crate::util::n_strings(k, max_len);
    let mut idx = Vec::new();
    let mut s = String::new();
    for n in 0..total {
        crate::util::nth_seq(k, n, &mut idx);
        s.clear();
        for i in &idx {
            s.push_str(symbols[*i]);
        }
        f(&s);
    }
}

/// block-level symbols for the space rules: ASCII blocks of 15/16 bytes, multi-byte runs of 16/18 bytes,
/// single / double / non-ASCII spaces, single letters
pub const SPACE_MACROS: [&str; 10] = [
    "abcdefghijklmnop",
    "abcdefghijklmno",
    "\u{65E5}\u{672C}\u{8A9E}\u{65E5}\u{672C}\u{8A9E}",
    "\u{E9}\u{E9}\u{E9}\u{E9}\u{E9}\u{E9}\u{E9}\u{E9}",
    " ",
    "  ",
    "\u{A0}",
    "\u{3000}",
    "a",
    "\u{65E5}",
];

/// Drive `f` with `n` hostile long inputs built around cores from `core`;
/// every input is also presented from one reused buffer, immediately followed
/// by a same-length variant in the same buffer (and the original again).
pub fn drive<C, F>(rng: &mut Rng, n: usize, max_boundary: usize, mut core: C, mut f: F)
where
    C: FnMut(&mut Rng) -> String,
    F: FnMut(&str),
{
    let mut buf = String::new();
    for k in 0..n {
        let a = if rng.chance(1, 3) { String::new() } else { core(rng) };
        let b = core(rng);
        // the largest boundaries only now and then (cost)
        let mb = if k % 50 == 0 { max_boundary } else { max_boundary.min(4096) };
        let s = if k % 3 == 2 { segments(rng, &mut core) } else { around_boundary(rng, &a, &b, mb) };
        f(&s);
        if let Some(t) = same_length_variant(rng, &s) {
            buf.clear();
            buf.push_str(&s);
            f(&buf);
            buf.clear();
            buf.push_str(&t);
            f(&buf);
            buf.clear();
            buf.push_str(&s);
            f(&buf);
        }
    }
}

/// length-extension variants of one string: differences of exactly 255/256/257/512/65536 bytes
pub fn extensions(s: &str, with_huge: bool) -> Vec<String> {
    let mut v = Vec::new();
    for l in [1usize, 255, 256, 257, 512] {
        let mut t = String::from(s);
        for _ in 0..l {
            t.push('A');
        }
        v.push(t);
    }
    // the same with four-byte code points (byte difference 256, character difference 64)
    let mut t = String::from(s);
    for _ in 0..64 {
        t.push('\u{20000}');
    }
    v.push(t);
    if with_huge {
        let mut t = String::from(s);
        for _ in 0..65536 {
            t.push('a');
        }
        v.push(t);
    }
    v
}
