//! C09 - the directionality rule is the RFC 5893 Bidi rule, on every label

use crate::api::{self, Out, Prof, RuleK, E, R};
use crate::refmodel::{self, BidiVerdict};
use crate::ucd::*;
use crate::util::{self, par, Rec, Rng, Witness};
use crate::Env;

pub const KNOWN_F4: &str = "bidi-interior-nsm";

fn classes_of(d16: &Data16, s: &str) -> Option<Vec<u8>> {
    let mut v = Vec::new();
    for c in s.chars() {
        if !d16.ud.assigned.has(c as u32) {
            return None;
        }
        v.push(d16.bidi(c));
    }
    Some(v)
}

fn judge(rec: &mut Rec, op: String, s: &str, classes: &[u8], got: &R, out_when_ok: &str) {
    let want = refmodel::directionality(classes);
    let want_r: R = match want {
        BidiVerdict::NoRtl | BidiVerdict::Ok => Out::Ok(out_when_ok.to_string()),
        BidiVerdict::Fails(_) => Out::Err(E::Invalid),
    };
    if *got == want_r {
        return;
    }
    let case = format!("label={}", util::esc(s));
    let cls: Vec<&str> = classes.iter().map(|c| BIDI_NAMES[*c as usize]).collect();
    // the listed defect: RFC accepts, library rejects, an NSM is followed by a non-NSM
    if want == BidiVerdict::Ok && *got == Out::Err(E::Invalid) && refmodel::has_interior_nsm(classes) {
        rec.violation(
            KNOWN_F4,
            Witness { op, case, expected: format!("Ok (RFC 5893 satisfied by classes {:?})", cls), observed: api::show_r(got) },
        );
        return;
    }
    rec.violation(
        "directionality-differs-from-rfc5893",
        Witness { op, case, expected: format!("{} ({:?} on classes {:?})", api::show_r(&want_r), want, cls), observed: api::show_r(got) },
    );
}

pub fn check(env: &Env, s: &str, rec: &mut Rec, with_enforce: bool) {
    let d16 = env.d16();
    let classes = match classes_of(d16, s) {
        Some(c) => c,
        None => {
            rec.count("skipped:contains-code-point-unassigned-in-16.0.0");
            return;
        }
    };
    for p in [Prof::Ucm, Prof::Ucp] {
        let got = api::rule(p, RuleK::Dir, s);
        rec.eval();
        judge(rec, format!("{}::directionality_rule", p.name()), s, &classes, &got, s);
    }
    let v = refmodel::directionality(&classes);
    let class = match v {
        BidiVerdict::NoRtl => "no-rtl".to_string(),
        BidiVerdict::Ok => {
            if classes[0] == B_L {
                "ltr-label-with-AN:ok".to_string()
            } else if refmodel::has_interior_nsm(&classes) {
                "rtl:ok:interior-nsm".to_string()
            } else {
                "rtl:ok".to_string()
            }
        }
        BidiVerdict::Fails(n) => format!("fails-condition-{}", n),
    };
    if v != BidiVerdict::NoRtl {
        rec.nontrivial(&class, &classes, || format!("{} [{}]", util::esc(s), classes.iter().map(|c| BIDI_NAMES[*c as usize]).collect::<Vec<_>>().join(" ")));
    } else {
        rec.count(&class);
    }
    if with_enforce {
        // final verdict of enforce on strings that pass the earlier steps (reference pre-steps)
        for p in [Prof::Ucm, Prof::Ucp] {
            let w = refmodel::width(d16, s);
            if w.is_empty() || api::class_allows(api::Class::Identifier, &w) != Out::Ok(()) {
                continue;
            }
            let l = if p == Prof::Ucm { refmodel::lower(&w) } else { w };
            let n = refmodel::nfc(&l);
            if n.is_empty() {
                continue;
            }
            if let Some(cl) = classes_of(d16, &n) {
                let got = api::enforce(p, s);
                rec.eval();
                rec.count("enforce-final-verdict-checked");
                judge(rec, format!("{}::enforce", p.name()), s, &cl, &got, &n);
            }
        }
    }
}

/// one representative per class (prefer PVALID members so that enforce reaches the rule)
fn representatives(env: &Env) -> Vec<char> {
    let p = env.pools();
    (0..23).map(|i| p.bidi_pvalid[i].first().or(p.bidi[i].first()).copied().expect("class has no member")).collect()
}

const TEMPLATES: [&[i8]; 12] = [
    &[-1], &[1, -1], &[1, -1, 1], &[1, -1, 3], &[1, 4, -1], &[2, -1, 10], &[0, -1, 1], &[-1, 1], &[1, 8, -1],
    // c as the ONLY character that can make the label an RTL label (RTL detection itself)
    &[0, -1], &[-1, 0], &[4, -1, 0],
];

fn template_seq(t: &[i8], c: u8) -> Vec<u8> {
    t.iter().map(|x| if *x < 0 { c } else { *x as u8 }).collect()
}

/// start-up self check: classes that the templates cannot tell apart are
/// indistinguishable for the rule in every context up to length 4
fn templates_distinguish() -> Result<usize, String> {
    // what is observable through the public API is accept / reject
    let acc = |v: &[u8]| !matches!(refmodel::directionality(v), BidiVerdict::Fails(_));
    let sig = |c: u8| -> Vec<bool> { TEMPLATES.iter().map(|t| acc(&template_seq(t, c))).collect() };
    let sigs: Vec<Vec<bool>> = (0..23u8).map(sig).collect();
    let mut groups = 0;
    let mut seen: Vec<&Vec<bool>> = Vec::new();
    for s in &sigs {
        if !seen.contains(&s) {
            seen.push(s);
            groups += 1;
        }
    }
    let mut idx = Vec::new();
    for x in 0..23u8 {
        for y in x + 1..23u8 {
            if sigs[x as usize] != sigs[y as usize] {
                continue;
            }
            // same signature: must be equivalent in every context of length <= 4
            for n in 0..util::n_strings(23, 3) {
                util::nth_seq(23, n, &mut idx);
                for hole in 0..=idx.len() {
                    let mut a: Vec<u8> = idx.iter().map(|i| *i as u8).collect();
                    let mut b = a.clone();
                    a.insert(hole, x);
                    b.insert(hole, y);
                    if acc(&a) != acc(&b) {
                        return Err(format!(
                            "classes {} and {} are not separated by the templates but differ in context {:?}",
                            BIDI_NAMES[x as usize], BIDI_NAMES[y as usize], a
                        ));
                    }
                }
            }
        }
    }
    Ok(groups)
}

pub fn run(env: &Env) -> Rec {
    let mut rec = Rec::new();
    let d16 = env.d16();
    match templates_distinguish() {
        Ok(g) => rec.note(format!("template self-check passed: the 12 templates separate the 23 bidi classes into {} groups, each indistinguishable for the rule in all contexts up to length 4", g)),
        Err(e) => {
            rec.note(format!("HARNESS-ERROR: {}", e));
            return rec;
        }
    }
    let reps = representatives(env);
    // (a) all class sequences, one representative per class, then random members
    let max_len = if env.quick() { 5 } else { 6 };
    let total = util::n_strings(23, max_len);
    let per = 4096usize;
    let ra = par(total.div_ceil(per), |c, rec| {
        let mut idx = Vec::new();
        let mut rng = Rng::stream(env.seed, 0x09_0000 + c as u64);
        let p = env.pools();
        for n in c * per..((c + 1) * per).min(total) {
            util::nth_seq(23, n, &mut idx);
            let s: String = idx.iter().map(|i| reps[*i]).collect();
            check(env, &s, rec, n % 4 == 0);
            if n % 4 == 1 {
                let s2: String = idx.iter().map(|i| *rng.pick(&p.bidi[*i])).collect();
                check(env, &s2, rec, false);
            }
        }
    });
    rec.merge(ra);
    rec.exhaustive(format!("all {} sequences of the 23 bidi classes up to length {} (one representative per class)", total, max_len));
    // (b) every assigned code point in the distinguishing templates
    let chunk = 0x400usize;
    let rb = par(NCP / chunk, |i, rec| {
        for cp in (i * chunk) as u32..((i + 1) * chunk) as u32 {
            if !d16.ud.assigned.has(cp) {
                continue;
            }
            if let Some(c) = char::from_u32(cp) {
                for t in TEMPLATES {
                    let s: String = t.iter().map(|x| if *x < 0 { c } else { reps[*x as usize] }).collect();
                    check(env, &s, rec, false);
                }
            }
        }
    });
    rec.merge(rb);
    rec.exhaustive("every code point assigned in Unicode 16.0.0 in 12 templates (9 class-distinguishing + 3 where it is the only possibly-RTL character)");
    // (c) random labels over weighted classes, RTL heavy, and PVALID-only labels through enforce
    let n = env.n(1_500_000, 40_000_000);
    let per = 2000usize;
    let rc = par(n.div_ceil(per), |c, rec| {
        let mut rng = Rng::stream(env.seed, 0x09_8000 + c as u64);
        let p = env.pools();
        const W: [(u8, usize); 13] =
            [(B_R, 8), (B_AL, 8), (B_AN, 5), (B_EN, 5), (B_NSM, 8), (B_L, 4), (B_ES, 2), (B_CS, 2), (B_ET, 2), (B_ON, 3), (B_BN, 2), (11, 1), (13, 1)];
        let tot: usize = W.iter().map(|w| w.1).sum();
        for j in 0..per {
            let len = rng.range(1, 16);
            let pvalid_only = j % 2 == 0;
            let mut s = String::new();
            for _ in 0..len {
                let mut r = rng.below(tot);
                let mut cls = B_R;
                for (c, w) in W {
                    if r < w {
                        cls = c;
                        break;
                    }
                    r -= w;
                }
                let pool = if pvalid_only && !p.bidi_pvalid[cls as usize].is_empty() { &p.bidi_pvalid[cls as usize] } else { &p.bidi[cls as usize] };
                s.push(*rng.pick(pool));
            }
            check(env, &s, rec, pvalid_only);
        }
    });
    rec.merge(rc);
    // long labels: the deciding character at and around power-of-two byte offsets
    let n_long = env.n(15_000, 500_000);
    let per = 200usize;
    let rd = par(n_long.div_ceil(per), |c, rec| {
        let mut rng = Rng::stream(env.seed, 0x09_C000 + c as u64);
        let p = env.pools();
        super::hostile::drive(
            &mut rng,
            per,
            4096,
            |rng| {
                let mut t = String::new();
                for _ in 0..rng.range(1, 2) {
                    let cls = *rng.pick(&[B_R, B_AL, B_AN, B_EN, B_NSM, B_L, B_ES, B_ON]);
                    let pool = if !p.bidi_pvalid[cls as usize].is_empty() { &p.bidi_pvalid[cls as usize] } else { &p.bidi[cls as usize] };
                    t.push(*rng.pick(pool));
                }
                t
            },
            |s| check(env, s, rec, true),
        );
        // the same around an RTL body: R x^n c
        for _ in 0..20 {
            let n = *rng.pick(&super::hostile::BOUNDARIES[..14]);
            let mut s = String::new();
            s.push(*rng.pick(&p.bidi_pvalid[B_R as usize]));
            let f = *rng.pick(&p.bidi_pvalid[B_AL as usize]);
            while s.len() + f.len_utf8() < n.saturating_sub(rng.below(4)) {
                s.push(f);
            }
            let cls = *rng.pick(&[B_AN, B_EN, B_L, B_ES, B_NSM, B_R]);
            s.push(*rng.pick(&p.bidi[cls as usize]));
            let cls2 = *rng.pick(&[B_AN, B_EN, B_R, B_NSM]);
            s.push(*rng.pick(&p.bidi[cls2 as usize]));
            check(env, &s, rec, true);
        }
    });
    rec.merge(rd);
    rec
}

pub fn replay(env: &Env, _op: &str, case: &str) -> Rec {
    let mut rec = Rec::new();
    match super::kv_get_last(case, "label").and_then(util::unesc) {
        Some(s) => check(env, &s, &mut rec, true),
        None => rec.note("HARNESS-ERROR: cannot parse replay case"),
    }
    rec
}
