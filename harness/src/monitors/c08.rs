//! C08 - enforced output has no universally forbidden code point and never drifts

use crate::api::{self, Class, Dp, Out, Prof, ALL_PROF};
use crate::gen;
use crate::ucd::NCP;
use crate::util::{self, par, Rec, Rng, Witness};
use crate::Env;

pub fn check(env: &Env, p: Prof, s: &str, rec: &mut Rec) {
    let _ = env;
    let e = api::enforce(p, s);
    rec.eval();
    let out = match &e {
        Out::Ok(o) => o,
        Out::Err(_) => {
            rec.count("rejected");
            return;
        }
        Out::Panic(_) => {
            rec.count("panic");
            return;
        }
    };
    let class = if p.is_username() { Class::Identifier } else { Class::Freeform };
    for c in out.chars() {
        let v = api::class_value_char(class, c);
        if matches!(v, Out::Ok(Dp::Disallowed) | Out::Ok(Dp::Unassigned)) {
            rec.violation(
                &format!("enforce-output-forbidden:{}:U+{:04X}", p.name(), c as u32),
                Witness {
                    op: format!("{}::enforce", p.name()),
                    case: format!("profile={};label={}", p.name(), util::esc(s)),
                    expected: format!("no DISALLOWED/UNASSIGNED code point in the result ({:?})", class),
                    observed: format!("\"{}\" contains U+{:04X} = {}", util::esc(out), c as u32, api::show(&v)),
                },
            );
        }
    }
    let again = api::enforce(p, out);
    rec.eval();
    let drift = match &again {
        Out::Ok(x) => x != out,
        Out::Err(_) => false,
        Out::Panic(_) => true,
    };
    if drift {
        rec.violation(
            &format!("enforce-output-drifts:{}", p.name()),
            Witness {
                op: format!("{}::enforce twice", p.name()),
                case: format!("profile={};label={}", p.name(), util::esc(s)),
                expected: format!("Ok(\"{}\") or an error", util::esc(out)),
                observed: api::show_r(&again),
            },
        );
    }
    // the same again after unrelated calls (a memo of "the last result" must not be what kept it stable), and the
    // result handed to the other profiles as stored strings are: straight after it was produced, then re-enforced
    // there after unrelated calls
    let flush = || {
        let _ = api::enforce(Prof::Opaque, "e\u{301}\u{FB01}");
        let _ = api::enforce(Prof::Nick, "\u{FF21}\u{30A} \u{2163}");
    };
    let mut drift_after = |q: Prof, stored: &str, first: &str, rec: &mut Rec| {
        let later = api::enforce(q, stored);
        rec.eval();
        let bad = match &later {
            Out::Ok(x) => x != stored,
            Out::Err(_) => false,
            Out::Panic(_) => true,
        };
        if bad {
            rec.violation(
                &format!("enforce-output-drifts-after-other-calls:{}", q.name()),
                Witness {
                    op: format!("{}::enforce of a stored result (enforce of \"{}\"), after unrelated calls", q.name(), util::esc(first)),
                    case: format!("profile={};label={}", p.name(), util::esc(s)),
                    expected: format!("Ok(\"{}\") or an error", util::esc(stored)),
                    observed: api::show_r(&later),
                },
            );
        }
    };
    flush();
    drift_after(p, out, s, rec);
    if out != s {
        for q in ALL_PROF {
            if q == p {
                continue;
            }
            let _ = api::enforce(p, s); // `out` is again the string most recently produced
            let x = api::enforce(q, out);
            rec.eval();
            if let Out::Ok(x) = x {
                rec.count("chained:result-of-one-profile-accepted-by-another");
                flush();
                drift_after(q, &x, out, rec);
            }
        }
    }
    if out != s {
        let k = match &again {
            Out::Ok(_) => "changed:stable",
            _ => "changed:second-enforce-rejects",
        };
        rec.nontrivial(&format!("{}:{}", p.name(), k), &(p, s), || format!("{} \"{}\" -> \"{}\"", p.name(), util::esc(s), util::esc(out)));
    } else {
        rec.count("accepted-unchanged");
    }
}

pub fn run(env: &Env) -> Rec {
    let mut rec = Rec::new();
    let pools = env.pools();
    // every code point singly (and after a letter), all four profiles
    let chunk = 0x400usize;
    let r1 = par(NCP / chunk, |i, rec| {
        let mut s = String::new();
        for cp in (i * chunk) as u32..((i + 1) * chunk) as u32 {
            if let Some(c) = char::from_u32(cp) {
                for p in ALL_PROF {
                    s.clear();
                    s.push(c);
                    check(env, p, &s, rec);
                    s.insert(0, 'a');
                    check(env, p, &s, rec);
                }
            }
        }
    });
    rec.merge(r1);
    rec.exhaustive("every Unicode scalar value c as c and a c, all four profiles");
    // characters whose lowercase / NFC / NFKC form differs: with every mark, and in pairs
    let mut special: Vec<char> = Vec::new();
    special.extend(pools.cased.iter());
    special.extend(pools.nfc_diff.iter());
    special.extend(pools.nfkc_diff.iter());
    special.sort();
    special.dedup();
    let marks: Vec<char> = pools.marks.iter().copied().take(if env.quick() { 40 } else { 80 }).collect();
    let r2 = par(special.len(), |i, rec| {
        let c = special[i];
        let mut s = String::new();
        for m in &marks {
            for p in ALL_PROF {
                s.clear();
                s.push(c);
                s.push(*m);
                check(env, p, &s, rec);
            }
        }
        let mut rng = Rng::stream(env.seed, 0x08_0000 + i as u64);
        for _ in 0..if env.quick() { 30 } else { 300 } {
            let d = *rng.pick(&special);
            for p in ALL_PROF {
                s.clear();
                s.push(c);
                s.push(d);
                check(env, p, &s, rec);
            }
        }
    });
    rec.merge(r2);
    // every canonical composition pair
    let r3 = par(pools.compose_pairs.len().div_ceil(64), |i, rec| {
        let mut s = String::new();
        for (a, b) in pools.compose_pairs.iter().skip(i * 64).take(64) {
            for p in ALL_PROF {
                s.clear();
                s.push(*a);
                s.push(*b);
                check(env, p, &s, rec);
                s.insert(0, 'A');
                check(env, p, &s, rec);
            }
        }
    });
    rec.merge(r3);
    rec.exhaustive(format!("every canonical composition pair of UnicodeData 16.0.0 ({}), all four profiles", pools.compose_pairs.len()));
    // the profile workloads of C04-C06
    let n = env.n(1_500_000, 40_000_000);
    let per = 1000usize;
    let r4 = par(n.div_ceil(per), |c, rec| {
        let mut rng = Rng::stream(env.seed, 0x08_8000 + c as u64);
        for j in 0..per {
            let s = match j % 3 {
                0 => super::c04::username_input(env, &mut rng, j / 3),
                1 => super::c05::freeform_input(env, &mut rng, j / 3),
                _ => super::c06::nickname_input(env, &mut rng, j / 3),
            };
            for p in ALL_PROF {
                check(env, p, &s, rec);
            }
        }
    });
    rec.merge(r4);
    let n_long = env.n(10_000, 400_000);
    let per = 200usize;
    let r5 = par(n_long.div_ceil(per), |c, rec| {
        let mut rng = Rng::stream(env.seed, 0x08_C000 + c as u64);
        super::hostile::drive(
            &mut rng,
            per,
            65536,
            |rng| {
                let j = rng.below(30);
                let s = match j % 3 {
                    0 => super::c04::username_input(env, rng, j / 3),
                    1 => super::c05::freeform_input(env, rng, j / 3),
                    _ => super::c06::nickname_input(env, rng, j / 3),
                };
                s.chars().take(6).collect()
            },
            |s| {
                for p in ALL_PROF {
                    check(env, p, s, rec);
                }
            },
        );
    });
    rec.merge(r5);
    let _ = gen::ALPHA9;
    rec
}

pub fn replay(env: &Env, _op: &str, case: &str) -> Rec {
    let mut rec = Rec::new();
    let p = super::kv_get(case, "profile").and_then(Prof::from_name);
    match (p, super::kv_get_last(case, "label").and_then(util::unesc)) {
        (Some(p), Some(s)) => check(env, p, &s, &mut rec),
        _ => rec.note("HARNESS-ERROR: cannot parse replay case"),
    }
    rec
}
