//! C16 - results depend only on the arguments, not on API form, history or threads

use crate::api::{self, ArgForm, CowKind, LongLived, Out, Prof, ALL_ARGFORMS, ALL_PROF};
use crate::rawfmt;
use crate::util::{self, par, Rec, Rng, Witness};
use crate::Env;
use std::process::Command;

fn inputs_for(env: &Env, rng: &mut Rng, j: usize) -> String {
    match j % 3 {
        0 => super::c04::username_input(env, rng, j / 3),
        1 => super::c05::freeform_input(env, rng, j / 3),
        _ => super::c06::nickname_input(env, rng, j / 3),
    }
}

/// Phase A: static / fresh / long-lived x argument forms
fn phase_a_one(ll: &LongLived, s: &str, other: &str, rec: &mut Rec) {
    // the order of the profiles rotates with the input, so that every profile is called right after every other
    let rot = s.len() % 4;
    let order = [ALL_PROF[rot], ALL_PROF[(rot + 3) % 4], ALL_PROF[(rot + 1) % 4], ALL_PROF[(rot + 2) % 4]];
    for p in order {
        for enforce in [false, true] {
            let base = api::fresh_call(p, enforce, s, ArgForm::Str);
            rec.eval();
            let base_content = base.clone().map(|x| x.0);
            for f in ALL_ARGFORMS {
                let variants = [("static", api::static_call(p, enforce, s, f)), ("fresh", api::fresh_call(p, enforce, s, f)), ("long-lived", ll.call(p, enforce, s, f))];
                for (how, r) in variants {
                    rec.eval();
                    let content = r.clone().map(|x| x.0);
                    if content != base_content {
                        rec.violation(
                            "result-depends-on-api-form",
                            Witness {
                                op: format!("{}::{} via {} / {:?}", p.name(), if enforce { "enforce" } else { "prepare" }, how, f),
                                case: format!("profile={};op={};label={}", p.name(), if enforce { "enforce" } else { "prepare" }, util::esc(s)),
                                expected: api::show(&base_content),
                                observed: api::show(&content),
                            },
                        );
                    }
                    if let Out::Ok((_, k)) = &r {
                        // evidence only: which Cow variant came back
                        rec.count(match (f, k) {
                            (ArgForm::Str | ArgForm::CowBorrowed, CowKind::Borrowed) => "cow:borrowed-in/borrowed-out",
                            (ArgForm::Str | ArgForm::CowBorrowed, CowKind::Owned) => "cow:borrowed-in/owned-out",
                            (_, CowKind::Borrowed) => "cow:owned-in/borrowed-out",
                            (_, CowKind::Owned) => "cow:owned-in/owned-out",
                        });
                    }
                }
            }
            if let Out::Ok((o, _)) = &base {
                if o != s {
                    rec.nontrivial("api-forms:accepted-and-changed", &(p, enforce, s), || format!("{} {} \"{}\"", p.name(), if enforce { "enforce" } else { "prepare" }, util::esc(s)));
                } else {
                    rec.count("api-forms:accepted-unchanged");
                }
            } else {
                rec.count("api-forms:rejected");
            }
        }
        // compare: instance (&str / String), static
        let c0 = api::compare(p, s, other);
        let c1 = ll.compare(p, s, other, false);
        let c2 = ll.compare(p, s, other, true);
        let c3 = api::s_compare(p, s, other);
        rec.evals(4);
        if c1 != c0 || c2 != c0 || c3 != c0 {
            rec.violation(
                "compare-depends-on-api-form",
                Witness {
                    op: format!("{}::compare fresh / long-lived / owned / static", p.name()),
                    case: format!("profile={};op=compare;other={};label={}", p.name(), util::esc(other).replace(';', "\\u{3B}"), util::esc(s)),
                    expected: api::show(&c0),
                    observed: format!("{} / {} / {}", api::show(&c1), api::show(&c2), api::show(&c3)),
                },
            );
        }
    }
}

/// Phase A2: results handed on. The string one profile has just produced is given to another profile as the very
/// next call on this thread; the same call is repeated after unrelated calls and on a helper thread (other
/// thread-local state). All three must agree: a "last result" memo that forgets what produced it shows here.
const NCP_CHUNKS: usize = 0x110000 / 0x1000;

type HelperLink = (std::sync::mpsc::Sender<(Prof, String)>, std::sync::mpsc::Receiver<api::R>);
thread_local! {
    /// one helper thread per worker thread: it only ever runs the repeated calls of phase A2, so its thread-local
    /// state has another history than the worker's (it ends when the worker's sender is dropped)
    static HELPER: std::cell::RefCell<Option<HelperLink>> = const { std::cell::RefCell::new(None) };
}

fn on_helper_thread(q: Prof, o: &str) -> api::R {
    HELPER.with(|h| {
        let mut h = h.borrow_mut();
        if h.is_none() {
            let (tx, rx) = std::sync::mpsc::channel::<(Prof, String)>();
            let (tx2, rx2) = std::sync::mpsc::channel::<api::R>();
            std::thread::spawn(move || {
                while let Ok((q, o)) = rx.recv() {
                    if tx2.send(api::enforce(q, &o)).is_err() {
                        break;
                    }
                }
            });
            *h = Some((tx, rx2));
        }
        let (tx, rx) = h.as_ref().unwrap();
        if tx.send((q, o.to_string())).is_err() {
            return Out::Panic("helper thread gone".into());
        }
        rx.recv().unwrap_or(Out::Panic("helper thread gone".into()))
    })
}

fn phase_a_chain(s: &str, rec: &mut Rec) {
    for p in ALL_PROF {
        let o = match api::enforce(p, s) {
            Out::Ok(o) if o != s => o,
            _ => continue,
        };
        for q in ALL_PROF {
            if q == p {
                continue;
            }
            let _ = api::enforce(p, s);
            let r1 = api::enforce(q, &o);
            let _ = api::enforce(crate::api::Prof::Opaque, "e\u{301}\u{FB01}");
            let _ = api::enforce(crate::api::Prof::Nick, "\u{FF21}\u{30A} \u{2163}");
            let r2 = api::enforce(q, &o);
            // (the helper round trip costs a context switch: one chain in four)
            let r3 = if (o.len() + s.len()) % 4 == 0 { on_helper_thread(q, &o) } else { r2.clone() };
            rec.evals(3);
            rec.count("chained:result-of-one-profile-enforced-by-another");
            if r1 != r2 || r1 != r3 {
                rec.violation(
                    "result-depends-on-call-history",
                    Witness {
                        op: format!("{}::enforce of the string {}::enforce has just produced / after unrelated calls / on another thread", q.name(), p.name()),
                        case: format!("profile={};op=chain;via={};label={}", q.name(), p.name(), util::esc(s)),
                        expected: "three equal results".into(),
                        observed: format!("{} / {} / {}", api::show(&r1), api::show(&r2), api::show(&r3)),
                    },
                );
            }
        }
    }
}

/// Phase A3: one buffer, two contents. `a` is processed from a buffer, then `b` - of exactly the same byte length -
/// is written into the same buffer (same address, same length) and processed; the results for `b` must equal
/// those for a copy of `b` at another address. Whatever was remembered about the slice must not outlive its
/// content.
fn phase_a_reuse(a: &str, b: &str, rec: &mut Rec) {
    if a.len() != b.len() || a == b {
        return;
    }
    let mut buf = String::with_capacity(a.len() + 16);
    for p in ALL_PROF {
        for enforce in [false, true] {
            for (x, y) in [(a, b), (b, a)] {
                buf.clear();
                buf.push_str(x);
                let _ = if enforce { api::enforce(p, &buf) } else { api::prepare(p, &buf) };
                buf.clear();
                buf.push_str(y);
                let same_place = if enforce { api::enforce(p, &buf) } else { api::prepare(p, &buf) };
                let copy = y.to_string();
                let elsewhere = if enforce { api::enforce(p, &copy) } else { api::prepare(p, &copy) };
                rec.evals(3);
                rec.count("reused-buffer:same-address-other-content");
                if same_place != elsewhere {
                    rec.violation(
                        "result-depends-on-call-history",
                        Witness {
                            op: format!("{}::{} on a buffer that held \"{}\" before", p.name(), if enforce { "enforce" } else { "prepare" }, util::esc(x)),
                            case: format!("profile={};op={};label={}", p.name(), if enforce { "enforce" } else { "prepare" }, util::esc(y)),
                            expected: api::show(&elsewhere),
                            observed: api::show(&same_place),
                        },
                    );
                }
            }
        }
    }
}

/// labels of equal byte length that differ in what the context rules, the Bidi rule and the mappings see
const REUSE_PAIRS: [(&str, &str); 12] = [
    ("\u{661}\u{662}\u{663}", "\u{661}\u{6F2}\u{663}"),
    ("\u{6F0}\u{6F1}", "\u{660}\u{6F1}"),
    ("\u{30A2}\u{30FB}", "abc\u{30FB}"),
    ("l\u{B7}l", "a\u{B7}b"),
    ("\u{3B1}\u{375}\u{3B2}", "ab\u{375}\u{3B2}"),
    ("\u{5D0}\u{5F3}", "ab\u{5F3}"),
    ("\u{915}\u{94D}\u{200D}", "\u{915}\u{915}\u{200D}"),
    ("\u{5D0}\u{5D1}1", "ab\u{5D1}1"),
    ("\u{FF21}b", "abcd"),
    ("A\u{30A}", "a\u{E5}"),
    ("alice", "Bobby"),
    ("a \u{A0}b", "a  bc"),
];

struct Case {
    op: &'static str,
    profile: &'static str,
    a: String,
    b: String,
}

fn write_cases(path: &std::path::Path, cases: &[Case]) -> bool {
    let mut t = String::new();
    for c in cases {
        t.push_str(&format!("{}\t{}\t{}\t{}\n", c.op, c.profile, rawfmt::esc(&c.a), rawfmt::esc(&c.b)));
    }
    std::fs::write(path, t).is_ok()
}

fn racer_path() -> Option<std::path::PathBuf> {
    let p = std::env::current_exe().ok()?.parent()?.join("racer");
    p.exists().then_some(p)
}

/// Phases B and C through fresh child processes
fn phases_bc(env: &Env, rec: &mut Rec) {
    let racer = match racer_path() {
        Some(r) => r,
        None => {
            rec.note("HARNESS-ERROR: racer binary not found next to the harness");
            return;
        }
    };
    let _ = std::fs::create_dir_all(&env.out_dir);
    let mut rng = Rng::stream(env.seed, 0x16_0000);
    // input list: generated + same-length / same-prefix neighbours (what a wrongly keyed cache would confuse)
    let mut inputs: Vec<String> = Vec::new();
    for j in 0..env.n(120, 400) {
        let s = inputs_for(env, &mut rng, j);
        if s.chars().count() <= 40 {
            inputs.push(s);
        }
    }
    let extra: Vec<String> = inputs
        .iter()
        .take(30)
        .filter(|s| !s.is_empty())
        .map(|s| {
            let mut cs: Vec<char> = s.chars().collect();
            let i = cs.len() - 1;
            cs[i] = if cs[i] == 'a' { 'b' } else { 'a' };
            cs.into_iter().collect()
        })
        .collect();
    inputs.extend(extra);
    inputs.extend(["".to_string(), "Alice".into(), "alice".into(), "ALICE".into(), "alic\u{0}".into(), "\u{FF21}lice".into()]);
    // probes that a specialised fast path is likely to get wrong: ASCII controls inside ASCII names, DEL,
    // a lone space, a trailing newline, a backtick, a fullwidth digit
    inputs.extend(["ab\u{7F}".to_string(), "\u{7F}".into(), "guy\u{1F}brush".into(), "a b".into(), "ab\n".into(), "a`b".into(), "\u{FF11}23".into(), "Abc\u{7F}Def".into()]);
    // long inputs (memo thresholds) and inputs that differ in one code point only
    {
        let p = env.pools();
        let mut longs = Vec::new();
        super::hostile::drive(&mut rng, env.n(12, 60), 256, |rng| { let j = rng.below(12); let s = inputs_for(env, rng, j); s.chars().take(5).collect() }, |s| {
            if s.len() < 2000 {
                longs.push(s.to_string())
            }
        });
        longs.push("Guybrush Threepwood, Mighty Pirate \u{FB01}rst class".to_string());
        longs.push(format!("{}{}", "Correct Horse Battery Staple ".repeat(2), crate::gen::SPECIAL_WORDS[1]));
        let _ = p;
        inputs.extend(longs);
    }
    let mut cases = Vec::new();
    // first-use corpus: inputs that make the FIRST call of a thread touch as many lazily built or table-driven
    // paths as possible (width tables incl. halfwidth kana/hangul, Zs, bidi, normalisation, context rules)
    const FIRST_USE: [&str; 22] = [
        "\u{FF9D}\u{FF76}", "\u{FFA1}\u{FFC2}", "\u{FF21}\u{FF42}", "\u{FF71}\u{FF9E}", "x\u{3000}y", "\u{FFE0}1", "\u{5D0}\u{5D1}", "\u{627}\u{644}\u{661}",
        "a\u{A0}b", "\u{2003}x ", "\u{2163}", "\u{FB01}n", "e\u{301}", "l\u{B7}l", "\u{915}\u{94D}\u{200D}", "\u{391}\u{3A3}", "\u{13A0}", "\u{1F88}",
        "\u{AC00}\u{1100}", "\u{20000}\u{1F600}", "\u{30FB}\u{30A2}", "Guybrush",
    ];
    for a in FIRST_USE {
        for p in rawfmt::PROFILES {
            cases.push(Case { op: if cases.len() % 2 == 0 { "prepare" } else { "enforce" }, profile: p, a: a.to_string(), b: a.to_string() });
        }
    }
    let first_n = cases.len();
    for (i, a) in inputs.iter().enumerate() {
        // compare operands related to a: itself, its lowercase, an unrelated input
        let b = match i % 3 {
            0 => a.clone(),
            1 => crate::refmodel::lower(a),
            _ => inputs[(i * 7 + 3) % inputs.len()].clone(),
        };
        for p in rawfmt::PROFILES {
            for op in rawfmt::OPS {
                cases.push(Case { op, profile: p, a: a.clone(), b: b.clone() });
            }
        }
    }
    let tag = format!("c16-{}", std::process::id());
    let cf = env.out_dir.join(format!("{}-cases.tsv", tag));
    let bf = env.out_dir.join(format!("{}-baseline.txt", tag));
    if !write_cases(&cf, &cases) {
        rec.note("HARNESS-ERROR: cannot write cases file");
        return;
    }
    // baseline: fresh process, single thread, fresh instances, file order
    let ok = Command::new(&racer).args(["baseline", "--cases"]).arg(&cf).arg("--out").arg(&bf).output().map(|o| o.status.success()).unwrap_or(false);
    if !ok {
        rec.note("HARNESS-ERROR: baseline child failed");
        return;
    }
    // the harness' own in-process results must agree with the fresh-process baseline too
    if let Ok(t) = std::fs::read_to_string(&bf) {
        for (c, l) in cases.iter().zip(t.lines()) {
            let here = rawfmt::esc(&rawfmt::raw(c.profile, c.op, &c.a, &c.b, false));
            rec.eval();
            if here != l {
                rec.violation(
                    "result-depends-on-process-history",
                    Witness {
                        op: format!("{}::{} in a process with a long call history vs a fresh process", c.profile, c.op),
                        case: format!("profile={};op={};other={};label={}", c.profile, c.op, util::esc(&c.b).replace(';', "\\u{3B}"), util::esc(&c.a)),
                        expected: l.to_string(),
                        observed: here,
                    },
                );
            }
        }
    }
    let mut total_calls = 0u64;
    let mut overlap_sum = 0u64;
    let mut overlap_max = 0u64;
    let mut per_profile_max = [0u64; 4];
    let mut run_child = |threads: usize, rounds: usize, seed: u64, phase: &str, rec: &mut Rec| {
        let out = Command::new(&racer)
            .args(["run", "--cases"])
            .arg(&cf)
            .arg("--expect")
            .arg(&bf)
            .args(["--threads", &threads.to_string(), "--rounds", &rounds.to_string(), "--seed", &seed.to_string(), "--first", &first_n.to_string()])
            .output();
        let out = match out {
            Ok(o) if o.status.success() => String::from_utf8_lossy(&o.stdout).to_string(),
            Ok(o) => {
                rec.violation(
                    "racer-child-died",
                    Witness { op: format!("phase {} child", phase), case: format!("threads={};rounds={};seed={}", threads, rounds, seed), expected: "exit 0".into(), observed: format!("{:?} {}", o.status, String::from_utf8_lossy(&o.stderr)) },
                );
                return;
            }
            Err(e) => {
                rec.note(format!("HARNESS-ERROR: cannot start racer: {}", e));
                return;
            }
        };
        for l in out.lines() {
            if let Some(m) = l.strip_prefix("MISMATCH ") {
                rec.violation(
                    if phase == "B" { "result-depends-on-call-history" } else { "result-depends-on-concurrent-callers" },
                    Witness {
                        op: format!("static call in phase {} (threads={}, seed={})", phase, threads, seed),
                        case: m.to_string(),
                        expected: m.split(" expected=").nth(1).and_then(|x| x.split(" observed=").next()).unwrap_or("").to_string(),
                        observed: m.split(" observed=").nth(1).unwrap_or("").to_string(),
                    },
                );
            } else if l.starts_with("RACER ") {
                let get = |k: &str| l.split_whitespace().find_map(|w| w.strip_prefix(k)).and_then(|v| v.parse::<u64>().ok()).unwrap_or(0);
                let calls = get("calls=");
                total_calls += calls;
                rec.evals(calls);
                let mm = get("mismatches=");
                if mm > 10 {
                    rec.count_n("mismatches-beyond-the-first-ten-of-a-child", mm - 10);
                }
                if phase == "C" {
                    let ov = get("first_call_overlap=");
                    overlap_sum += ov;
                    overlap_max = overlap_max.max(ov);
                    if let Some(pp) = l.split("per_profile_first_use_overlap=[").nth(1) {
                        for (i, v) in pp.trim_end_matches(']').split(',').enumerate().take(4) {
                            per_profile_max[i] = per_profile_max[i].max(v.trim().parse().unwrap_or(0));
                        }
                    }
                    rec.nontrivial("phaseC:schedule", &(threads, seed), || l.to_string());
                } else {
                    rec.nontrivial("phaseB:permuted-history", &(threads, seed, "B"), || l.to_string());
                }
            }
        }
    };
    // Phase B: single thread, many permutations of the same list, interleaved profiles and failing inputs
    let nb = env.n(10, 100);
    for k in 0..nb {
        run_child(1, 3, env.seed.wrapping_mul(31).wrapping_add(k as u64), "B", rec);
    }
    // Phase C: many threads from the very first call
    let nc = env.n(66, 900);
    for k in 0..nc {
        let threads = [16usize, 32, 64, 16][k % 4];
        run_child(threads, 1 + k % 2, env.seed.wrapping_mul(131).wrapping_add(k as u64), "C", rec);
    }
    // Phase E ("regimes"): single-threaded processes that run long homogeneous workloads (all ASCII, ASCII with
    // spaces, Latin-1, CJK, right-to-left, errors only, long ASCII - in a seeded order), each followed by the
    // whole case list: behaviour that changes after N calls of a kind (adaptive fast paths, counters) shows here
    // The first 7 (quick) / 21 (thorough) processes see one regime each, so that a statistic accumulated over the
    // process is not diluted by the other regimes; the others run all seven in a seeded order.
    let single = if env.quick() { 7 } else { 21 };
    let ne = single + env.n(2, 24);
    for k in 0..ne {
        let seed = env.seed.wrapping_mul(313).wrapping_add(k as u64);
        let per = if k < single { ["20000", "100000", "500000"][k / 7] } else if k % 2 == 0 { "3000" } else { "20000" };
        let mut cmd = Command::new(&racer);
        cmd.args(["regime", "--cases"]).arg(&cf).arg("--expect").arg(&bf).args(["--seed", &seed.to_string(), "--per-regime", per]);
        if k < single {
            cmd.args(["--only", &(k % 7).to_string()]);
        }
        let out = cmd.output();
        if let Ok(o) = out {
            let text = String::from_utf8_lossy(&o.stdout).to_string();
            for l in text.lines() {
                if let Some(m) = l.strip_prefix("MISMATCH ") {
                    rec.violation(
                        "result-depends-on-call-history",
                        Witness {
                            op: format!("static call in phase E (regimes, seed={})", seed),
                            case: m.to_string(),
                            expected: m.split(" expected=").nth(1).and_then(|x| x.split(" observed=").next()).unwrap_or("").to_string(),
                            observed: m.split(" observed=").nth(1).unwrap_or("").to_string(),
                        },
                    );
                } else if l.starts_with("RACER regime") {
                    let calls = l.split_whitespace().find_map(|w| w.strip_prefix("calls=")).and_then(|v| v.parse::<u64>().ok()).unwrap_or(0);
                    total_calls += calls;
                    rec.evals(calls);
                    rec.nontrivial("phaseE:regime-process", &(seed, "E"), || l.to_string());
                }
            }
        }
    }
    // Phase D ("hammer"): few inputs, many rounds, many threads. The inputs come in pairs that differ in one
    // code point only, where the two code points are congruent modulo 64 / 256 / 1024 / 4096 / 65536 but have
    // different derived properties - what a small direct-mapped shared table updated without a lock would tear.
    let hf = env.out_dir.join(format!("{}-hammer.tsv", tag));
    let hb = env.out_dir.join(format!("{}-hammer-baseline.txt", tag));
    let abs = &env.pools().abs;
    let mut hammer: Vec<Case> = Vec::new();
    for (k, m) in [64u32, 256, 1024, 4096, 65536].iter().cycle().take(35).enumerate() {
        // a PVALID letter v (ASCII, Latin-1, Greek, Hebrew, kana, Han, Hangul) and a not-valid w = v + j*m
        let mut found = 0;
        let mut v = [0x61u32, 0xE9, 0x3B1, 0x5D0, 0x30AB, 0x4E00, 0xAC00][k / 5] + (env.seed as u32 % 20);
        let stop = v + 0x400;
        while found < 1 && v < stop {
            let ok = |c: u32| (c as usize) < crate::ucd::NCP && abs[c as usize] == crate::refmodel::Abs::PValid;
            if ok(v) {
                if let Some(w) = (1..40u32).map(|j| v + j * m).chain((1..2u32).map(|j| v.wrapping_sub(j * m))).find(|w| {
                    (*w as usize) < crate::ucd::NCP && char::from_u32(*w).is_some() && matches!(abs[*w as usize], crate::refmodel::Abs::IdDisOrFreePval | crate::refmodel::Abs::Disallowed)
                }) {
                    let (cv, cw) = (char::from_u32(v).unwrap(), char::from_u32(w).unwrap());
                    for (a, b) in [(format!("guy{}brush", cv), format!("guy{}brush", cw)), (format!("{}x", cw), format!("{}x", cv))] {
                        for p in rawfmt::PROFILES {
                            hammer.push(Case { op: if k % 2 == 0 { "prepare" } else { "enforce" }, profile: p, a: a.clone(), b: b.clone() });
                            hammer.push(Case { op: "enforce", profile: p, a: b.clone(), b: a.clone() });
                        }
                    }
                    found += 1;
                }
            }
            v += 37;
        }
    }
    if write_cases(&hf, &hammer) {
        let ok = Command::new(&racer).args(["baseline", "--cases"]).arg(&hf).arg("--out").arg(&hb).output().map(|o| o.status.success()).unwrap_or(false);
        if ok {
            let (cf2, bf2) = (cf.clone(), bf.clone());
            let _ = (cf2, bf2);
            let nh = env.n(6, 100);
            for k in 0..nh {
                let threads = [8usize, 16, 32][k % 3];
                let out = Command::new(&racer)
                    .args(["run", "--cases"])
                    .arg(&hf)
                    .arg("--expect")
                    .arg(&hb)
                    .args(["--threads", &threads.to_string(), "--rounds", "40", "--seed", &(env.seed.wrapping_mul(977).wrapping_add(k as u64)).to_string()])
                    .output();
                if let Ok(o) = out {
                    let text = String::from_utf8_lossy(&o.stdout).to_string();
                    for l in text.lines() {
                        if let Some(m) = l.strip_prefix("MISMATCH ") {
                            rec.violation(
                                "result-depends-on-concurrent-callers",
                                Witness {
                                    op: format!("static call in phase D (hammer, threads={})", threads),
                                    case: m.to_string(),
                                    expected: m.split(" expected=").nth(1).and_then(|x| x.split(" observed=").next()).unwrap_or("").to_string(),
                                    observed: m.split(" observed=").nth(1).unwrap_or("").to_string(),
                                },
                            );
                        } else if l.starts_with("RACER ") {
                            let calls = l.split_whitespace().find_map(|w| w.strip_prefix("calls=")).and_then(|v| v.parse::<u64>().ok()).unwrap_or(0);
                            total_calls += calls;
                            rec.evals(calls);
                            rec.nontrivial("phaseD:hammer-process", &(threads, k, "D"), || l.to_string());
                        }
                    }
                }
            }
        } else {
            rec.note("HARNESS-ERROR: hammer baseline child failed");
        }
    }
    let _ = std::fs::remove_file(&hf);
    let _ = std::fs::remove_file(&hb);
    rec.count_n("phaseBC:calls-in-child-processes", total_calls);
    rec.count_n("phaseC:sum-of-threads-overlapping-the-first-call", overlap_sum);
    rec.count_n("phaseC:max-threads-overlapping-the-first-call-in-one-process", overlap_max);
    for (i, p) in rawfmt::PROFILES.iter().enumerate() {
        rec.count_n(&format!("phaseC:max-threads-overlapping-first-use-of-{}", p), per_profile_max[i]);
    }
    let _ = std::fs::remove_file(&cf);
    let _ = std::fs::remove_file(&bf);
}

pub fn run(env: &Env) -> Rec {
    let mut rec = Rec::new();
    // Phase A on generated inputs, in parallel threads of this process (shared statics, long-lived instances per thread)
    let n = env.n(100_000, 3_000_000);
    let per = 500usize;
    let ra = par(n.div_ceil(per), |c, rec| {
        let mut rng = Rng::stream(env.seed, 0x16_8000 + c as u64);
        let ll = LongLived::new();
        let mut prev = String::from("x");
        for j in 0..per {
            let s = inputs_for(env, &mut rng, j);
            phase_a_one(&ll, &s, &prev, rec);
            if j % 4 == 0 {
                phase_a_chain(&s, rec);
            }
            if j % 4 == 1 {
                if let Some(t) = super::hostile::same_length_variant(&mut rng, &s) {
                    phase_a_reuse(&s, &t, rec);
                }
            }
            prev = s;
        }
    });
    rec.merge(ra);
    // chained results for every scalar value that some profile's enforce changes (c alone and after a letter that
    // is not NFC-stable with a following mark)
    let rc = par(NCP_CHUNKS, |i, rec| {
        let mut s = String::new();
        for cp in (i * 0x1000) as u32..((i + 1) * 0x1000) as u32 {
            if let Some(c) = char::from_u32(cp) {
                s.clear();
                s.push(c);
                phase_a_chain(&s, rec);
                s.push_str("ance\u{301}");
                phase_a_chain(&s, rec);
            }
        }
    });
    rec.merge(rc);
    let n_long = env.n(1_500, 60_000);
    let per = 100usize;
    let ra2 = par(n_long.div_ceil(per), |c, rec| {
        let mut rng = Rng::stream(env.seed, 0x16_C000 + c as u64);
        let ll = LongLived::new();
        super::hostile::drive(&mut rng, per, 65536, |rng| { let j = rng.below(12); let s = inputs_for(env, rng, j); s.chars().take(5).collect() }, |s| phase_a_one(&ll, s, "x", rec));
    });
    rec.merge(ra2);
    // deterministic corpus: words on which string-level (context-sensitive) case mapping differs from the
    // per-character one, alone, with a width-mapped neighbour, and with spaces (forces the owned paths)
    let ll = LongLived::new();
    for w in crate::gen::SPECIAL_WORDS {
        for s in [w.to_string(), format!("\u{FF21}{}", w), format!("{} ", w), format!(" {}\u{A0}x", w), format!("x{}", w)] {
            phase_a_one(&ll, &s, w, &mut rec);
        }
    }
    for (a, b) in REUSE_PAIRS {
        phase_a_reuse(a, b, &mut rec);
        // the same inside longer labels of equal length
        phase_a_reuse(&format!("xy{}", a), &format!("xy{}", b), &mut rec);
    }
    phases_bc(env, &mut rec);
    rec
}

pub fn replay(_env: &Env, _op: &str, case: &str) -> Rec {
    let mut rec = Rec::new();
    let ll = LongLived::new();
    match super::kv_get_last(case, "label").and_then(util::unesc) {
        Some(s) => {
            let other = super::kv_get(case, "other").and_then(util::unesc).unwrap_or_default();
            phase_a_one(&ll, &s, &other, &mut rec);
            phase_a_chain(&s, &mut rec);
        }
        None => rec.note("HARNESS-ERROR: history/schedule witnesses are replayed by re-running the check with the recorded seed"),
    }
    let _ = Prof::Ucm;
    rec
}
