//! C17 - the PRECIS registry CSV parser reads back exactly what a row says

use crate::api::{guard_v, Out};
use crate::ucd::{self, CsvProp, CsvRow, CSV_PROP_NAMES};
use crate::util::{self, par, Rec, Rng, Witness};
use crate::Env;
use precis_tools::{CsvLineParser, DerivedProperties, DerivedProperty, PrecisDerivedProperty};
use std::str::FromStr;

/// what a parsed item looks like, in harness terms
#[derive(Clone, PartialEq, Eq, Debug)]
struct Parsed {
    lo: u32,
    hi: u32,
    is_range: bool,
    p1: CsvProp,
    p2: Option<CsvProp>,
    desc: String,
}

fn cv_prop(p: DerivedProperty) -> CsvProp {
    match p {
        DerivedProperty::PValid => CsvProp::PValid,
        DerivedProperty::FreePVal => CsvProp::FreePVal,
        DerivedProperty::ContextJ => CsvProp::ContextJ,
        DerivedProperty::ContextO => CsvProp::ContextO,
        DerivedProperty::Disallowed => CsvProp::Disallowed,
        DerivedProperty::IdDis => CsvProp::IdDis,
        DerivedProperty::Unassigned => CsvProp::Unassigned,
    }
}

fn cv(p: &PrecisDerivedProperty) -> Parsed {
    let (lo, hi, is_range) = match p.codepoints {
        ucd_parse::Codepoints::Single(c) => (c.value(), c.value(), false),
        ucd_parse::Codepoints::Range(r) => (r.start.value(), r.end.value(), true),
    };
    let (p1, p2) = match p.properties {
        DerivedProperties::Single(a) => (cv_prop(a), None),
        DerivedProperties::Tuple((a, b)) => (cv_prop(a), Some(cv_prop(b))),
    };
    Parsed { lo, hi, is_range, p1, p2, desc: p.description.clone() }
}

/// Ok(parsed) / Err(message) / panic
fn parse_line(line: &str) -> Out<Result<Parsed, String>> {
    guard_v(|| PrecisDerivedProperty::from_str(line).map(|p| cv(&p)).map_err(|e| e.mesg().to_string()))
}

fn prop_name(p: CsvProp) -> &'static str {
    CSV_PROP_NAMES.iter().find(|(_, q)| *q == p).unwrap().0
}

#[derive(Clone, Debug)]
struct Row {
    model: Parsed,
    cp_field: String,
    prop_field: String,
}

impl Row {
    fn line(&self) -> String {
        format!("{},{},{}", self.cp_field, self.prop_field, self.model.desc)
    }
}

fn hex(rng: &mut Rng, v: u32) -> String {
    // 4 to 6 upper-case hex digits
    let min = format!("{:04X}", v);
    match rng.below(4) {
        0 if min.len() < 6 => format!("{:0w$X}", v, w = rng.range(min.len(), 6)),
        _ => min,
    }
}

const DESC_CHARS: &[char] = &[
    'A', 'B', 'Z', 'a', 'z', '0', '9', ' ', ' ', ',', ',', '.', '-', '"', '\'', ';', ':', '<', '>', '(', ')', '+', '\t', '\u{E9}', '\u{4E2D}',
    '\u{1F600}', 'o', 'r',
];

fn gen_row(rng: &mut Rng) -> Row {
    let is_range = rng.chance(1, 3);
    let lo = match rng.below(5) {
        0 => rng.below(0x100) as u32,
        1 => 0x10FFFF - rng.below(0x100) as u32,
        2 => 0xD800 + rng.below(0x800) as u32,
        _ => rng.below(0x110000) as u32,
    };
    let hi = if is_range { lo + rng.below((0x10FFFF - lo as usize).min(5000) + 1) as u32 } else { lo };
    let all: Vec<CsvProp> = CSV_PROP_NAMES.iter().map(|x| x.1).collect();
    let p1 = *rng.pick(&all);
    let p2 = if rng.chance(1, 3) { Some(*rng.pick(&all)) } else { None };
    let desc: String = match rng.below(6) {
        0 => String::new(),
        1 => ",".repeat(rng.range(1, 3)),
        2 => "LATIN SMALL LETTER A..LATIN SMALL LETTER Z".to_string(),
        _ => (0..rng.below(30)).map(|_| *rng.pick(DESC_CHARS)).collect(),
    };
    let cp_field = if is_range { format!("{}-{}", hex(rng, lo), hex(rng, hi)) } else { hex(rng, lo) };
    let prop_field = match p2 {
        None => prop_name(p1).to_string(),
        Some(q) => format!("{}{}or{}{}", prop_name(p1), " ".repeat(rng.range(1, 3)), " ".repeat(rng.range(1, 3)), prop_name(q)),
    };
    Row { model: Parsed { lo, hi, is_range, p1, p2, desc }, cp_field, prop_field }
}

/// a malformed variant of a well-formed row, with the kind of damage
fn damage(rng: &mut Rng, r: &Row) -> (String, &'static str) {
    // (no blank here: a blank in place of the first or last digit is padding around another, valid code point)
    const NONHEX: &[char] = &['G', 'Z', 'g', 'x', '+', '.', '_', '\u{E9}', '/', ':', '@', '`'];
    let corrupt = |rng: &mut Rng, s: &str| -> String {
        let cs: Vec<char> = s.chars().collect();
        let digits: Vec<usize> = cs.iter().enumerate().filter(|(_, c)| c.is_ascii_hexdigit()).map(|(i, _)| i).collect();
        let i = *rng.pick(&digits);
        cs.iter().enumerate().map(|(j, c)| if j == i { *rng.pick(NONHEX) } else { *c }).collect()
    };
    match rng.below(19) {
        16 | 17 | 18 => {
            // a field replaced by long text with multi-byte characters at every byte offset (a property column
            // that holds a description because a field was deleted and the description has a comma, etc.)
            let fill = *rng.pick(&['\u{E9}', '\u{201C}', '\u{4E2D}', '\u{1F600}']);
            let mut text = "A".repeat(rng.below(4));
            for _ in 0..rng.range(8, 40) {
                text.push(if rng.chance(1, 3) { 'x' } else { fill });
            }
            match rng.below(3) {
                0 => (format!("{},{},{}", r.cp_field, text, r.model.desc), "property column holds long non-ASCII text"),
                1 => (format!("{},{},{}", text, r.prop_field, r.model.desc), "code point column holds long non-ASCII text"),
                _ => (format!("{},LATIN CAPITAL LETTER {} \u{201C}WITH GRAVE\u{201D}, SEE {}", r.cp_field, text, r.cp_field), "property field deleted, description with a comma slides in"),
            }
        }
        0 => (format!("{},{}", r.prop_field, r.model.desc.replace(',', " ")), "code point field deleted"),
        1 => (format!("{},{}", r.cp_field, r.model.desc.replace(',', " ")), "property field deleted"),
        2 => (format!("{},{}", r.cp_field, r.prop_field), "description field deleted"),
        3 => (r.cp_field.clone(), "only one field"),
        4 => (format!(",{},{}", r.prop_field, r.model.desc), "code point field empty"),
        5 => (format!("{},,{}", r.cp_field, r.model.desc), "property field empty"),
        6 => (format!("{},{},{}", corrupt(rng, &r.cp_field), r.prop_field, r.model.desc), "hex digit corrupted"),
        7 => {
            let sign = *rng.pick(&["+", "0x", "U+", "-"]);
            (format!("{}{},{},{}", sign, r.cp_field, r.prop_field, r.model.desc), "sign or prefix inserted before the code point")
        }
        8 => {
            // a blank between two hex digits (blanks AROUND a field are padding, see check_padded_line)
            let mut f = r.cp_field.clone();
            f.insert(1, ' ');
            (format!("{},{},{}", f, r.prop_field, r.model.desc), "blank inside the code point")
        }
        9 => {
            let big = if rng.chance(1, 2) {
                0x110000u64 + rng.next() % 0xFFFF_0000
            } else {
                // nine or more hex digits whose low 32 bits would be a valid code point
                ((1 + rng.next() % 0xFFFF) << 32) | (rng.next() % 0x110000)
            };
            let f = if r.model.is_range { format!("{:04X}-{:X}", r.model.lo, big) } else { format!("{:X}", big) };
            (format!("{},{},{}", f, r.prop_field, r.model.desc), "code point beyond U+10FFFF")
        }
        10 => {
            let name = prop_name(r.model.p1);
            let broken = match rng.below(5) {
                0 => name.to_lowercase(),
                1 => name[..name.len() - 1].to_string(),
                2 => format!("{}X", name),
                3 => format!("{} {}", &name[..2], &name[2..]),
                _ => format!("X{}", &name[1..]),
            };
            let f = match r.model.p2 {
                None => broken,
                Some(q) => format!("{} or {}", broken, prop_name(q)),
            };
            (format!("{},{},{}", r.cp_field, f, r.model.desc), "property name broken")
        }
        11 => {
            let q = prop_name(r.model.p2.unwrap_or(r.model.p1));
            let k = rng.below(7);
            let f = match k {
                0 => format!("{} or ", prop_name(r.model.p1)),
                1 => format!(" or {}", prop_name(r.model.p1)),
                2 => " or ".to_string(),
                3 => format!("{} or {} or {}", prop_name(r.model.p1), prop_name(r.model.p1), prop_name(r.model.p1)),
                // the joiner glued to a name: one word that is not a property name
                4 => format!("{}or{}", prop_name(r.model.p1), q),
                5 => format!("{} or{}", prop_name(r.model.p1), q),
                _ => format!("{}or {}", prop_name(r.model.p1), q),
            };
            (format!("{},{},{}", r.cp_field, f, r.model.desc), if k < 4 { "'or' without two operands" } else { "'or' glued to a property name" })
        }
        12 => {
            let f = if r.model.is_range { format!("{:04X}-", r.model.lo) } else { format!("{:04X}-{:04X}-{:04X}", r.model.lo, r.model.lo, r.model.lo) };
            (format!("{},{},{}", f, r.prop_field, r.model.desc), "range with a missing or extra bound")
        }
        13 => (String::new(), "empty line"),
        14 => (format!("{};{};{}", r.cp_field, r.prop_field, r.model.desc.replace(',', " ")), "wrong separator"),
        _ => (format!("{},{},{}", r.cp_field, "NOT_A_PROPERTY", r.model.desc), "unknown property name"),
    }
}

fn check_good_line(r: &Row, rec: &mut Rec) {
    let line = r.line();
    let got = parse_line(&line);
    rec.eval();
    let class = format!(
        "well-formed:{}:{}{}",
        if r.model.is_range { "range" } else { "single" },
        if r.model.p2.is_some() { "pair" } else { "one-property" },
        if r.model.desc.contains(',') { ":comma-in-description" } else { "" }
    );
    rec.nontrivial(&class, &line, || util::esc(&line));
    if got != Out::Ok(Ok(r.model.clone())) {
        rec.violation(
            "csv-row-does-not-read-back",
            Witness {
                op: "PrecisDerivedProperty::from_str".into(),
                case: format!("line={}", util::esc(&line)),
                expected: format!("{:?}", r.model),
                observed: format!("{:?}", got),
            },
        );
    }
}

fn check_bad_line(line: &str, kind: &str, rec: &mut Rec) {
    let got = parse_line(line);
    rec.eval();
    rec.nontrivial(&format!("malformed:{}", kind), &line, || util::esc(line));
    if !matches!(got, Out::Ok(Err(_))) {
        rec.violation(
            "csv-malformed-row-accepted-or-panicked",
            Witness {
                op: "PrecisDerivedProperty::from_str".into(),
                case: format!("line={}", util::esc(line)),
                expected: format!("Err(..) ({})", kind),
                observed: format!("{:?}", got),
            },
        );
    }
}

/// a description without its line terminator (LF or CRLF), if it still carries one
fn strip_eol(d: &str) -> &str {
    d.strip_suffix("\r\n").or_else(|| d.strip_suffix('\n')).unwrap_or(d)
}

/// the line parser promises no line number for a line that is not UTF-8 (expected `Err(None)`); the right
/// number is as good as none
fn forgive_line_numbers(got: &mut [Result<Parsed, Option<u64>>], expect: &[Result<Parsed, Option<u64>>]) {
    for (i, e) in expect.iter().enumerate() {
        if *e == Err(None) && got.get(i) == Some(&Err(Some(i as u64 + 2))) {
            got[i] = Err(None);
        }
    }
}

/// Blanks or tabs around the code point field or the property field. The statement neither calls this malformed nor promises that it
/// is accepted: the parser may reject the row, or accept it with exactly the values it spells - nothing else.
fn check_padded_line(rng: &mut Rng, r: &Row, rec: &mut Rec) {
    let pad = *rng.pick(&[" ", "\t", "  "]);
    let f = match rng.below(3) {
        0 => format!("{}{}", pad, r.cp_field),
        1 => format!("{}{}", r.cp_field, pad),
        _ => format!("{}{}{}", pad, r.cp_field, pad),
    };
    // ... or around the property field
    let line = if rng.chance(1, 3) {
        format!("{},{}{}{},{}", r.cp_field, if rng.chance(1, 2) { pad } else { "" }, r.prop_field, pad, r.model.desc)
    } else {
        format!("{},{},{}", f, r.prop_field, r.model.desc)
    };
    let got = parse_line(&line);
    rec.eval();
    rec.count("padded-code-point-or-property-field (either rejected or read as spelled)");
    let ok = matches!(got, Out::Ok(Err(_))) || got == Out::Ok(Ok(r.model.clone()));
    if !ok {
        rec.violation(
            "csv-padded-row-read-as-something-else",
            Witness {
                op: "PrecisDerivedProperty::from_str".into(),
                case: format!("line={}", util::esc(&line)),
                expected: format!("Err(..) or {:?}", r.model),
                observed: format!("{:?}", got),
            },
        );
    }
}

/// items of a file through the public line parser: Ok(parsed) or Err(line number)
#[allow(clippy::type_complexity)]
fn parse_file(path: &std::path::Path) -> Out<Result<Vec<Result<Parsed, Option<u64>>>, String>> {
    guard_v(|| {
        let parser: CsvLineParser<std::fs::File, PrecisDerivedProperty> =
            CsvLineParser::from_path(path).map_err(|e| e.mesg().to_string())?;
        Ok(parser
            .map(|it| {
                it.map(|p| {
                    // "the same description text (up to the line terminator)": the terminator may or may not be kept
                    let mut m = cv(&p);
                    m.desc = strip_eol(&m.desc).to_string();
                    m
                })
                .map_err(|e| e.line())
            })
            .collect())
    })
}

/// a file with header, good and bad rows, in a given line-ending style
fn check_file(env: &Env, rng: &mut Rng, id: usize, rec: &mut Rec) {
    let crlf = rng.chance(1, 3);
    let final_newline = rng.chance(2, 3);
    let eol = if crlf { "\r\n" } else { "\n" };
    let n = rng.range(1, 40);
    let mut text = String::from("Codepoint,Property,Description");
    text.push_str(eol);
    let mut expect: Vec<Result<Parsed, Option<u64>>> = Vec::new();
    for i in 0..n {
        let r = gen_row(rng);
        let last = i + 1 == n;
        let term = if last && !final_newline { "" } else { eol };
        if rng.chance(1, 5) {
            let (bad, _) = damage(rng, &r);
            if bad.is_empty() && term.is_empty() {
                // an empty unterminated last line does not exist in the file at all
                continue;
            }
            text.push_str(&bad);
            text.push_str(term);
            expect.push(Err(Some(i as u64 + 2)));
        } else {
            text.push_str(&r.line());
            text.push_str(term);
            // a description that itself ends in CR (or LF) would be ambiguous with the terminator: not generated
            let mut m = r.model.clone();
            m.desc = strip_eol(&m.desc).to_string();
            if m.desc != r.model.desc || m.desc.ends_with('\r') {
                rec.note("HARNESS-ERROR: generated description ends in a line terminator");
            }
            expect.push(Ok(m));
        }
    }
    // now and then one row is replaced by bytes that are not UTF-8: the reader reports an I/O error for that
    // line (no line number is promised for it) and must go on counting and delivering the following rows
    let mut bytes: Vec<u8> = text.clone().into_bytes();
    let mut nonutf8 = false;
    if rng.chance(1, 4) && expect.len() >= 2 {
        let victim = rng.below(expect.len() - 1); // not the last row: its terminator handling is judged separately
        // find the byte range of line victim+1 (0 = header)
        let mut starts = vec![0usize];
        for (i, b) in bytes.iter().enumerate() {
            if *b == b'\n' {
                starts.push(i + 1);
            }
        }
        if victim + 2 < starts.len() {
            let (a, b) = (starts[victim + 1], starts[victim + 2]);
            let term: Vec<u8> = if bytes[..b].ends_with(b"\r\n") { b"\r\n".to_vec() } else { b"\n".to_vec() };
            let mut bad: Vec<u8> = b"0041,PVALID,LATIN \xFF\xFE CAPITAL".to_vec();
            bad.extend(term);
            bytes.splice(a..b, bad);
            expect[victim] = Err(None);
            nonutf8 = true;
        }
    }
    let text = String::from_utf8_lossy(&bytes).to_string();
    let path = env.out_dir.join(format!("c17-{}-{}.csv", std::process::id(), id));
    if std::fs::write(&path, &bytes).is_err() {
        rec.note("HARNESS-ERROR: cannot write scratch CSV file");
        return;
    }
    let mut got = parse_file(&path);
    if let Out::Ok(Ok(items)) = &mut got {
        forgive_line_numbers(items, &expect);
    }
    let _ = std::fs::remove_file(&path);
    rec.eval();
    let class = format!("file:{}:{}", if crlf { "CRLF" } else { "LF" }, if final_newline { "final-newline" } else { "no-final-newline" });
    rec.nontrivial(&class, &text, || format!("{} rows, {} malformed", expect.len(), expect.iter().filter(|e| e.is_err()).count()));
    if got != Out::Ok(Ok(expect.clone())) {
        // find first difference for the witness
        let detail = match &got {
            Out::Ok(Ok(items)) => {
                let i = (0..expect.len().max(items.len())).find(|i| expect.get(*i) != items.get(*i)).unwrap_or(0);
                (format!("item {}: {:?}", i, expect.get(i)), format!("item {}: {:?} ({} items)", i, items.get(i), items.len()))
            }
            o => (format!("{} items", expect.len()), format!("{:?}", o)),
        };
        rec.violation(
            "csv-file-items-differ",
            Witness {
                op: "CsvLineParser::from_path + iterate".into(),
                case: format!("{}file={}", if nonutf8 { "nonutf8-line=1;" } else { "" }, util::esc(&text)),
                expected: detail.0,
                observed: detail.1,
            },
        );
    }
}

pub fn run(env: &Env) -> Rec {
    let mut rec = Rec::new();
    let _ = std::fs::create_dir_all(&env.out_dir);
    // every single code point, with rotating property fields
    let all: Vec<CsvProp> = CSV_PROP_NAMES.iter().map(|x| x.1).collect();
    let chunk = 0x1000usize;
    let step = 1;
    let r1 = par(0x110000 / chunk, |i, rec| {
        for cp in ((i * chunk) as u32..((i + 1) * chunk) as u32).filter(|c| (*c as usize + env.seed as usize) % step == 0) {
            let p1 = all[cp as usize % 7];
            let p2 = if cp % 3 == 0 { Some(all[(cp as usize / 7) % 7]) } else { None };
            let prop_field = match p2 {
                None => prop_name(p1).to_string(),
                Some(q) => format!("{} or {}", prop_name(p1), prop_name(q)),
            };
            let r = Row {
                model: Parsed { lo: cp, hi: cp, is_range: false, p1, p2, desc: "X, Y".to_string() },
                cp_field: format!("{:04X}", cp),
                prop_field,
            };
            check_good_line(&r, rec);
        }
    });
    rec.merge(r1);
    if step == 1 {
        rec.exhaustive("every code point 0..=0x10FFFF as a single-code-point row");
    }
    // all 7 + 49 property fields
    for a in &all {
        let r = Row { model: Parsed { lo: 0x41, hi: 0x5A, is_range: true, p1: *a, p2: None, desc: "D".into() }, cp_field: "0041-005A".into(), prop_field: prop_name(*a).into() };
        check_good_line(&r, &mut rec);
        for b in &all {
            let r = Row {
                model: Parsed { lo: 0x41, hi: 0x41, is_range: false, p1: *a, p2: Some(*b), desc: "D".into() },
                cp_field: "0041".into(),
                prop_field: format!("{} or {}", prop_name(*a), prop_name(*b)),
            };
            check_good_line(&r, &mut rec);
        }
    }
    rec.exhaustive("all 7 property names and all 49 ordered pairs");
    // the same 49 pairs with the blank before and/or after the joiner deleted: the field is then one or two
    // words none of which is "or", i.e. an unknown property name ("ID_DISorFREE_PVAL", "ID_DIS orFREE_PVAL")
    for a in &all {
        for b in &all {
            for f in [
                format!("{}or{}", prop_name(*a), prop_name(*b)),
                format!("{} or{}", prop_name(*a), prop_name(*b)),
                format!("{}or {}", prop_name(*a), prop_name(*b)),
            ] {
                check_bad_line(&format!("0041,{},D", f), "'or' glued to a property name", &mut rec);
                check_bad_line(&format!("0041-005A,{},D, E", f), "'or' glued to a property name", &mut rec);
            }
        }
    }
    rec.exhaustive("all 49 ordered pairs with the joiner glued to the first, the second or both names (must be rejected)");
    // random rows, their malformed variants, and whole files
    let n = env.n(2_000_000, 50_000_000);
    let per = 2000usize;
    let r2 = par(n.div_ceil(per), |c, rec| {
        let mut rng = Rng::stream(env.seed, 0x17_0000 + c as u64);
        for j in 0..per {
            let r = gen_row(&mut rng);
            check_good_line(&r, rec);
            let (bad, kind) = damage(&mut rng, &r);
            check_bad_line(&bad, kind, rec);
            if j % 8 == 0 {
                check_padded_line(&mut rng, &r, rec);
            }
            if j % 100 == 0 {
                check_file(env, &mut rng, c * per + j, rec);
            }
            if j % 50 == 0 {
                // inputs on which the property is silent: must not panic
                for l in [
                    format!("{:04X}-{:04X},PVALID,reversed", r.model.hi.max(1), r.model.lo.min(r.model.hi.max(1) - 1)),
                    format!("{:04x},PVALID,lowercase", r.model.lo),
                    format!("{},PVALID\tor\tID_DIS,tabs", r.cp_field),
                ] {
                    let g = parse_line(&l);
                    rec.eval();
                    rec.count("silent-inputs:no-panic-only");
                    if g.is_panic() {
                        rec.violation(
                            "csv-parser-panicked",
                            Witness { op: "PrecisDerivedProperty::from_str".into(), case: format!("line={}", util::esc(&l)), expected: "no panic".into(), observed: format!("{:?}", g) },
                        );
                    }
                }
            }
        }
    });
    rec.merge(r2);
    // whole-file shapes: a file with more than 65,536 rows (malformed rows late in the file must still carry the
    // right line number), and rows longer than any read buffer
    {
        let mut rng = Rng::stream(env.seed, 0x17_F000);
        let nrows = env.n(70_000, 300_000);
        let mut text = String::from("Codepoint,Property,Description\n");
        let mut expect: Vec<Result<Parsed, Option<u64>>> = Vec::new();
        for i in 0..nrows {
            let r = gen_row(&mut rng);
            let special = i == 254 || i == 255 || i == 65_533 || i == 65_534 || i == 65_535 || i + 1 == nrows || i % 9973 == 0;
            if special && i % 2 == 0 {
                let (bad, _) = damage(&mut rng, &r);
                if !bad.is_empty() {
                    text.push_str(&bad);
                    text.push('\n');
                    expect.push(Err(Some(i as u64 + 2)));
                    continue;
                }
            }
            let mut m = r.model.clone();
            if i % 7919 == 0 {
                // a description far longer than a BufReader buffer, with commas
                m.desc = format!("{},{}", "long description, ".repeat(if i % (2 * 7919) == 0 { 1200 } else { 4000 + (i % 5) * 3000 }), i);
            }
            let line = format!("{},{},{}", r.cp_field, r.prop_field, m.desc);
            text.push_str(&line);
            text.push('\n');
            expect.push(Ok(m));
        }
        let path = env.out_dir.join(format!("c17-big-{}.csv", std::process::id()));
        if std::fs::write(&path, &text).is_ok() {
            let got = parse_file(&path);
            let _ = std::fs::remove_file(&path);
            rec.evals(nrows as u64);
            rec.nontrivial("file:more-than-65536-rows", &nrows, || format!("{} rows, {} malformed", nrows, expect.iter().filter(|e| e.is_err()).count()));
            match got {
                Out::Ok(Ok(items)) => {
                    if let Some(i) = (0..expect.len().max(items.len())).find(|i| expect.get(*i) != items.get(*i)) {
                        rec.violation(
                            "csv-file-items-differ",
                            Witness {
                                op: "CsvLineParser over a long file".into(),
                                case: format!("bigfile=1;seed={};row={}", env.seed, i + 2),
                                expected: format!("{:?}", expect.get(i)).chars().take(300).collect(),
                                observed: format!("{:?} ({} items)", items.get(i), items.len()).chars().take(300).collect(),
                            },
                        );
                    }
                }
                o => rec.violation(
                    "csv-file-items-differ",
                    Witness { op: "CsvLineParser over a long file".into(), case: format!("bigfile=1;seed={}", env.seed), expected: "items".into(), observed: format!("{:?}", o).chars().take(300).collect() },
                ),
            }
        }
    }
    // the registry snapshot itself, row by row against the own parser
    let own: Vec<CsvRow> = ucd::parse_csv(&ucd::csv_path());
    let got = parse_file(&ucd::csv_path());
    rec.eval();
    match got {
        Out::Ok(Ok(items)) => {
            let mut bad = items.len() != own.len();
            for (i, o) in own.iter().enumerate() {
                let want = Parsed { lo: o.lo, hi: o.hi, is_range: o.is_range, p1: o.p1, p2: o.p2, desc: o.desc.clone() };
                let ok = match items.get(i) {
                    Some(Ok(p)) => {
                        p.lo == want.lo
                            && p.hi == want.hi
                            && p.is_range == want.is_range
                            && p.p1 == want.p1
                            && p.p2 == want.p2
                            && p.desc == want.desc
                    }
                    _ => false,
                };
                rec.eval();
                if !ok && !bad {
                    bad = true;
                    rec.violation(
                        "csv-registry-snapshot-row-differs",
                        Witness {
                            op: "CsvLineParser over precis-tables-6.3.0.csv".into(),
                            case: format!("row={}", i + 2),
                            expected: format!("{:?}", want),
                            observed: format!("{:?}", items.get(i)),
                        },
                    );
                }
            }
            rec.nontrivial("registry-snapshot-file", &"registry", || format!("{} rows", own.len()));
        }
        o => rec.violation(
            "csv-registry-snapshot-unreadable",
            Witness { op: "CsvLineParser::from_path".into(), case: "registry".into(), expected: "rows".into(), observed: format!("{:?}", o) },
        ),
    }
    rec
}

pub fn replay(env: &Env, _op: &str, case: &str) -> Rec {
    let mut rec = Rec::new();
    if let Some(l) = super::kv_get_last(case, "line").and_then(util::unesc) {
        // judge by re-deriving: a line that renders from a model reads back; otherwise report what the parser says
        let got = parse_line(&l);
        rec.eval();
        rec.note(format!("parser says: {:?}", got));
        // re-run both judgements that could have produced the witness
        let own = own_parse(&l);
        match own {
            Some(m) => {
                if got != Out::Ok(Ok(m.clone())) {
                    rec.violation(
                        "csv-row-does-not-read-back",
                        Witness { op: "PrecisDerivedProperty::from_str".into(), case: case.into(), expected: format!("{:?}", m), observed: format!("{:?}", got) },
                    );
                }
            }
            None => {
                // blanks around the code point field: rejected, or read as spelled
                let unpadded = l.split_once(',').and_then(|(a, rest)| rest.split_once(',').map(|(b, c)| format!("{},{},{}", a.trim_matches([' ', '\t']), b.trim_matches([' ', '\t']), c)));
                let spelled = unpadded.as_deref().filter(|u| *u != l.as_str()).and_then(own_parse);
                if let Some(m) = spelled {
                    if !matches!(got, Out::Ok(Err(_))) && got != Out::Ok(Ok(m.clone())) {
                        rec.violation(
                            "csv-padded-row-read-as-something-else",
                            Witness { op: "PrecisDerivedProperty::from_str".into(), case: case.into(), expected: format!("Err(..) or {:?}", m), observed: format!("{:?}", got) },
                        );
                    }
                } else if !matches!(got, Out::Ok(Err(_))) {
                    rec.violation(
                        "csv-malformed-row-accepted-or-panicked",
                        Witness { op: "PrecisDerivedProperty::from_str".into(), case: case.into(), expected: "Err(..)".into(), observed: format!("{:?}", got) },
                    );
                }
            }
        }
    } else if case.starts_with("nonutf8-line=") {
        rec.note("HARNESS-ERROR: this witness contains a line that is not UTF-8 and cannot be replayed from its text; re-run the check with the recorded seed");
    } else if let Some(text) = super::kv_get_last(case, "file").and_then(util::unesc) {
        let _ = std::fs::create_dir_all(&env.out_dir);
        let path = env.out_dir.join(format!("c17-replay-{}.csv", std::process::id()));
        let _ = std::fs::write(&path, &text);
        let got = parse_file(&path);
        let _ = std::fs::remove_file(&path);
        // expectation from the own strict parser, line by line
        let mut expect = Vec::new();
        let mut lines: Vec<&str> = text.split_inclusive('\n').collect();
        if !lines.is_empty() {
            lines.remove(0);
        }
        for (i, l) in lines.iter().enumerate() {
            let body = l.trim_end_matches(['\r', '\n']);
            match own_parse(body) {
                Some(m) => expect.push(Ok(m)),
                None => expect.push(Err(Some(i as u64 + 2))),
            }
        }
        if got != Out::Ok(Ok(expect.clone())) {
            rec.violation(
                "csv-file-items-differ",
                Witness { op: "CsvLineParser".into(), case: case.into(), expected: format!("{:?}", expect), observed: format!("{:?}", got) },
            );
        }
    } else {
        rec.note("HARNESS-ERROR: cannot parse replay case");
    }
    rec
}

/// strict own parser of the registry format (used by replay only)
fn own_parse(line: &str) -> Option<Parsed> {
    let a = line.find(',')?;
    let b = a + 1 + line[a + 1..].find(',')?;
    let (cpf, pf, desc) = (&line[..a], &line[a + 1..b], &line[b + 1..]);
    let hexok = |s: &str| (4..=6).contains(&s.len()) && s.chars().all(|c| c.is_ascii_digit() || ('A'..='F').contains(&c));
    let (lo, hi, is_range) = match cpf.split_once('-') {
        Some((x, y)) if hexok(x) && hexok(y) => (u32::from_str_radix(x, 16).ok()?, u32::from_str_radix(y, 16).ok()?, true),
        None if hexok(cpf) => {
            let v = u32::from_str_radix(cpf, 16).ok()?;
            (v, v, false)
        }
        _ => return None,
    };
    if lo > 0x10FFFF || hi > 0x10FFFF {
        return None;
    }
    let name = |s: &str| CSV_PROP_NAMES.iter().find(|(n, _)| *n == s).map(|x| x.1);
    let (p1, p2) = if let Some(i) = pf.find(" or ") {
        (name(pf[..i].trim_end_matches(' '))?, Some(name(pf[i + 4..].trim_start_matches(' '))?))
    } else {
        (name(pf)?, None)
    };
    Some(Parsed { lo, hi, is_range, p1, p2, desc: desc.to_string() })
}
