//! C04 - username profiles apply all RFC 8265 rules, in the specified order
//! (also hosts the prepare/enforce comparison shared with C05 and C06)

use super::pipes::{self, Trace};
use crate::api::{self, Out, Prof, R};
use crate::gen;
use crate::util::{self, par, Rec, Rng, Witness};
use crate::Env;

/// Compare prepare and enforce of profile `p` on `s` with the reference
/// pipeline. Returns the library's enforce result and the reference trace.
pub fn check_prepare_enforce(env: &Env, p: Prof, s: &str, rec: &mut Rec, sigpfx: &str) -> (R, Trace) {
    // a different profile is called on the very same input first (result ignored): whatever the history, the
    // profile under test must answer what the pure reference says
    let h = s.len() + s.chars().next().map(|c| c as usize).unwrap_or(0);
    let other = api::ALL_PROF[(api::ALL_PROF.iter().position(|q| *q == p).unwrap() + 1 + h % 3) % 4];
    match h % 4 {
        0 => {
            let _ = api::s_enforce(other, s);
        }
        1 => {
            let _ = api::enforce(other, s);
        }
        2 => {
            let _ = api::s_compare(other, s, s);
        }
        _ => {}
    }
    let mut tr = Trace::default();
    let want_p = pipes::prepare_ref(env, p, s, &mut tr);
    let got_p = api::prepare(p, s);
    rec.eval();
    if !api::accepts(&want_p, &got_p) {
        rec.violation(
            &format!("{}-prepare-differs-from-reference-pipeline", sigpfx),
            Witness {
                op: format!("{}::prepare", p.name()),
                case: format!("profile={};label={}", p.name(), util::esc(s)),
                expected: pipes::show_set(&want_p),
                observed: api::show_r(&got_p),
            },
        );
    }
    let mut tr = Trace::default();
    let want_e = pipes::enforce_ref(env, p, s, &mut tr);
    let got_e = api::enforce(p, s);
    rec.eval();
    if !api::accepts(&want_e, &got_e) {
        rec.violation(
            &format!("{}-enforce-differs-from-reference-pipeline", sigpfx),
            Witness {
                op: format!("{}::enforce", p.name()),
                case: format!("profile={};label={}", p.name(), util::esc(s)),
                expected: pipes::show_set(&want_e),
                observed: api::show_r(&got_e),
            },
        );
    }
    // the same call with an owned argument (String) must give the same content
    let owned = api::fresh_call(p, true, s, api::ArgForm::String).map(|x| x.0);
    rec.eval();
    if owned != got_e {
        rec.violation(
            &format!("{}-enforce-owned-argument-differs", sigpfx),
            Witness {
                op: format!("{}::enforce(String) vs enforce(&str)", p.name()),
                case: format!("profile={};label={}", p.name(), util::esc(s)),
                expected: api::show_r(&got_e),
                observed: api::show_r(&owned),
            },
        );
    }
    // every failure of prepare is also the result of enforce
    if let Out::Err(_) = &got_p {
        if got_e != got_p {
            rec.violation(
                &format!("{}-prepare-failure-is-not-enforce-result", sigpfx),
                Witness {
                    op: format!("{}::prepare vs enforce", p.name()),
                    case: format!("profile={};label={}", p.name(), util::esc(s)),
                    expected: api::show_r(&got_p),
                    observed: api::show_r(&got_e),
                },
            );
        }
    }
    (got_e, tr)
}

pub fn check(env: &Env, s: &str, rec: &mut Rec) {
    for p in [Prof::Ucm, Prof::Ucp] {
        let (got, tr) = check_prepare_enforce(env, p, s, rec, "username");
        match &got {
            Out::Ok(_) => {
                let steps = [tr.width, tr.case, tr.norm, tr.rtl];
                let n = steps.iter().filter(|b| **b).count();
                let class = format!(
                    "{}:accepted:{}{}{}{}",
                    if p == Prof::Ucm { "ucm" } else { "ucp" },
                    if tr.width { "W" } else { "-" },
                    if tr.case { "C" } else { "-" },
                    if tr.norm { "N" } else { "-" },
                    if tr.rtl { "R" } else { "-" }
                );
                if n >= 2 {
                    rec.nontrivial(&class, &(p, s), || format!("{} enforce(\"{}\")", p.name(), util::esc(s)));
                } else {
                    rec.count(&class);
                }
            }
            Out::Err(e) => {
                let k = match e {
                    api::E::Invalid => "invalid(empty-or-bidi)",
                    api::E::Bad(..) => "bad-codepoint",
                    api::E::Undefined => "undefined-context",
                    api::E::Any => "any",
                    _ => "other-error",
                };
                rec.count(&format!("rejected:{}", k));
            }
            Out::Panic(_) => rec.count("panic"),
        }
    }
}

pub fn username_input(env: &Env, rng: &mut Rng, j: usize) -> String {
    let p = env.pools();
    let v = env.var();
    match j % 10 {
        0 => {
            let b = gen::name_like(p, rng, 10);
            v.variant(p, rng, &b)
        }
        1 => {
            // fullwidth / halfwidth forms: width then case, width then NFC
            let mut s = String::new();
            for _ in 0..rng.range(1, 8) {
                match rng.below(6) {
                    0 => s.push(char::from_u32(0xFF21 + rng.below(26) as u32).unwrap()),
                    1 => s.push(char::from_u32(0xFF41 + rng.below(26) as u32).unwrap()),
                    2 => {
                        s.push(char::from_u32(0xFF76 + rng.below(15) as u32).unwrap());
                        if rng.chance(1, 2) {
                            s.push(if rng.chance(2, 3) { '\u{FF9E}' } else { '\u{FF9F}' });
                        }
                    }
                    3 => s.push(*rng.pick(&p.width)),
                    4 => s.push(*rng.pick(&p.ascii_upper)),
                    _ => gen::push_kind(p, rng, gen::Kind::ComposePair, &mut s),
                }
            }
            s
        }
        2 => {
            // case / NFC interaction
            let mut s = String::new();
            for _ in 0..rng.range(1, 5) {
                if rng.chance(1, 2) {
                    s.push_str(rng.pick(&p.case_nfc_interact[..]).as_str());
                } else {
                    let k = *rng.pick(&[gen::Kind::Upper, gen::Kind::AsciiLower, gen::Kind::Mark, gen::Kind::Width]);
                    gen::push_kind(p, rng, k, &mut s);
                }
            }
            s
        }
        3 => {
            // RTL names with digits, marks and LTR tails
            let mut s = String::new();
            for _ in 0..rng.range(1, 8) {
                let k = *rng.pick(&[
                    gen::Kind::Rtl,
                    gen::Kind::Rtl,
                    gen::Kind::Rtl,
                    gen::Kind::RtlDigit,
                    gen::Kind::Digit,
                    gen::Kind::Mark,
                    gen::Kind::AsciiLower,
                    gen::Kind::Width,
                    gen::Kind::Context,
                ]);
                gen::push_kind(p, rng, k, &mut s);
            }
            s
        }
        4 => {
            let b = gen::contextual_label(p, rng);
            if rng.chance(1, 2) {
                v.variant(p, rng, &b)
            } else {
                b
            }
        }
        5 => {
            let b = gen::name_like(p, rng, 8);
            let b = v.variant(p, rng, &b);
            v.variant(p, rng, &b)
        }
        6 => gen::random_string(p, rng, gen::MIX_HOSTILE, 16),
        _ => gen::random_string(p, rng, gen::MIX_USERNAME, 20),
    }
}

pub fn run(env: &Env) -> Rec {
    let mut rec = Rec::new();
    // exhaustive 9-symbol multi-byte strings
    let max_len = if env.quick() { 5 } else { 7 };
    let k = gen::ALPHA9.len();
    let total = util::n_strings(k, max_len);
    let per = 2048usize;
    let r1 = par(total.div_ceil(per), |c, rec| {
        let mut idx = Vec::new();
        for n in c * per..((c + 1) * per).min(total) {
            util::nth_seq(k, n, &mut idx);
            check(env, &gen::string_from_indices(&gen::ALPHA9, &idx), rec);
        }
    });
    rec.merge(r1);
    rec.exhaustive(format!("all strings up to length {} over the 9-symbol 1-4 byte alphabet {{SP,A0,3000,a,A,E9,20AC,FF21,1F600}}", max_len));
    // every Unicode scalar value alone, after / before a Hebrew letter (so that its bidi class matters), and
    // after a fullwidth capital (width + case mapping active)
    let rsw = par(crate::ucd::NCP / 0x400, |i, rec| {
        let mut s = String::new();
        for cp in (i * 0x400) as u32..((i + 1) * 0x400) as u32 {
            if let Some(c) = char::from_u32(cp) {
                for t in 0..4 {
                    s.clear();
                    match t {
                        0 => s.push(c),
                        1 => {
                            s.push('\u{5D0}');
                            s.push(c)
                        }
                        2 => {
                            s.push(c);
                            s.push('\u{5D0}')
                        }
                        _ => {
                            s.push('\u{FF21}');
                            s.push(c)
                        }
                    }
                    check(env, &s, rec);
                }
            }
        }
    });
    rec.merge(rsw);
    rec.exhaustive("every Unicode scalar value c as c, U+05D0 c, c U+05D0 and U+FF21 c through prepare and enforce of both username profiles");
    let n = env.n(3_000_000, 80_000_000);
    let per = 1000usize;
    let r2 = par(n.div_ceil(per), |c, rec| {
        let mut rng = Rng::stream(env.seed, 0x04_0000 + c as u64);
        for j in 0..per {
            let s = username_input(env, &mut rng, j);
            check(env, &s, rec);
        }
    });
    rec.merge(r2);
    let n_long = env.n(15_000, 500_000);
    let per = 200usize;
    let r3 = par(n_long.div_ceil(per), |c, rec| {
        let mut rng = Rng::stream(env.seed, 0x04_C000 + c as u64);
        super::hostile::drive(&mut rng, per, 65536, |rng| { let j = rng.below(10); let s = username_input(env, rng, j); s.chars().take(6).collect() }, |s| check(env, s, rec));
    });
    rec.merge(r3);
    for s in ["", "\u{FF21}", "\u{3000}", "\u{FF9E}", "\u{FF76}\u{FF9E}", "A\u{30C}", "\u{5D0}1", "1\u{5D0}"] {
        check(env, s, &mut rec);
    }
    rec
}

pub fn replay(env: &Env, _op: &str, case: &str) -> Rec {
    let mut rec = Rec::new();
    match super::kv_get_last(case, "label").and_then(util::unesc) {
        Some(s) => check(env, &s, &mut rec),
        None => rec.note("HARNESS-ERROR: cannot parse replay case"),
    }
    rec
}
