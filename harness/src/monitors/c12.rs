//! C12 - space rules map, trim and collapse spaces without touching anything else

use crate::api::{self, Out, Prof, RuleK};
use crate::gen;
use crate::refmodel;
use crate::ucd::NCP;
use crate::util::{self, par, Rec, Rng, Witness};
use crate::Env;

pub fn check(env: &Env, s: &str, rec: &mut Rec) {
    let d16 = env.d16();
    let wants = [(Prof::Nick, refmodel::nick_spaces(d16, s)), (Prof::Opaque, refmodel::opaque_spaces(d16, s))];
    for (p, want) in &wants {
        let got = api::rule(*p, RuleK::Additional, s);
        rec.eval();
        let owned = api::rule_owned(*p, RuleK::Additional, s);
        rec.eval();
        if owned != got {
            rec.violation(
                "space-rule-owned-argument-differs",
                Witness {
                    op: format!("{}::additional_mapping_rule(String) vs (&str)", p.name()),
                    case: format!("label={}", util::esc(s)),
                    expected: api::show_r(&got),
                    observed: api::show_r(&owned),
                },
            );
        }
        if got != Out::Ok(want.clone()) {
            rec.violation(
                if *p == Prof::Nick { "nickname-space-rule-differs-from-split-join-reference" } else { "opaque-space-mapping-differs-from-reference" },
                Witness {
                    op: format!("{}::additional_mapping_rule", p.name()),
                    case: format!("label={}", util::esc(s)),
                    expected: format!("Ok(\"{}\")", util::esc(want)),
                    observed: api::show_r(&got),
                },
            );
            continue;
        }
        if let Out::Ok(o) = &got {
            let again = api::rule(*p, RuleK::Additional, o);
            rec.eval();
            if again != got {
                rec.violation(
                    "space-rule-not-idempotent",
                    Witness {
                        op: format!("{}::additional_mapping_rule twice", p.name()),
                        case: format!("label={}", util::esc(s)),
                        expected: api::show_r(&got),
                        observed: api::show_r(&again),
                    },
                );
            }
        }
    }
    // profile level: enforce results carry the rule's effect
    let e = api::enforce(Prof::Opaque, s);
    rec.eval();
    if let Out::Ok(x) = &e {
        let want = refmodel::nfc(&wants[1].1);
        if *x != want {
            rec.violation(
                "opaque-enforce-differs-from-space-mapping-then-nfc",
                Witness {
                    op: "OpaqueString::enforce".into(),
                    case: format!("label={}", util::esc(s)),
                    expected: format!("Ok(\"{}\")", util::esc(&want)),
                    observed: api::show_r(&e),
                },
            );
        }
    }
    let e = api::enforce(Prof::Nick, s);
    rec.eval();
    if let Out::Ok(x) = &e {
        let bad = x.starts_with(' ') || x.ends_with(' ') || x.contains("  ") || x.chars().any(|c| c != ' ' && d16.is_zs(c));
        if bad {
            rec.violation(
                "nickname-enforce-result-has-untrimmed-or-unmapped-spaces",
                Witness {
                    op: "Nickname::enforce".into(),
                    case: format!("label={}", util::esc(s)),
                    expected: "no leading/trailing/double/non-ASCII space".into(),
                    observed: api::show_r(&e),
                },
            );
        }
    }
    // classify
    let has_space = s.chars().any(|c| d16.is_zs(c));
    let multibyte = s.chars().any(|c| c.len_utf8() > 1 && !d16.is_zs(c));
    if has_space {
        let cs: Vec<char> = s.chars().collect();
        let first_action = if d16.is_zs(cs[0]) {
            "leading"
        } else if cs.iter().any(|c| *c != ' ' && d16.is_zs(*c)) {
            "non-ascii"
        } else if s.contains("  ") {
            "double"
        } else if s.ends_with(' ') {
            "trailing"
        } else {
            "none-needed"
        };
        let class = format!("spaces:{}{}", first_action, if multibyte { ":with-multibyte" } else { "" });
        if multibyte {
            rec.nontrivial(&class, &s, || util::esc(s));
        } else {
            rec.count(&class);
        }
    } else {
        rec.count("no-space");
    }
}

const ALPHA: [char; 8] = [' ', '\u{A0}', '\u{2003}', '\u{3000}', 'a', '\u{E9}', '\u{20AC}', '\u{1F600}'];

pub fn run(env: &Env) -> Rec {
    let mut rec = Rec::new();
    let d16 = env.d16();
    let max_len = if env.quick() { 7 } else { 8 };
    let k = ALPHA.len();
    let total = util::n_strings(k, max_len);
    let per = 4096usize;
    let r1 = par(total.div_ceil(per), |c, rec| {
        let mut idx = Vec::new();
        for n in c * per..((c + 1) * per).min(total) {
            util::nth_seq(k, n, &mut idx);
            check(env, &gen::string_from_indices(&ALPHA, &idx), rec);
        }
    });
    rec.merge(r1);
    rec.exhaustive(format!("all strings up to length {} over {{SP, A0, 2003, 3000, a, E9, 20AC, 1F600}}", max_len));
    // every Zs code point at every position of short strings
    let zs: Vec<char> = d16.zs.iter().filter_map(|c| char::from_u32(*c)).collect();
    let base: [char; 3] = ['a', '\u{E9}', '\u{1F600}'];
    for z in &zs {
        let alpha = [*z, ' ', base[0], base[1], base[2]];
        let total = util::n_strings(5, 5);
        let mut idx = Vec::new();
        for n in 0..total {
            util::nth_seq(5, n, &mut idx);
            if idx.contains(&0) {
                check(env, &gen::string_from_indices(&alpha, &idx), &mut rec);
            }
        }
    }
    rec.exhaustive(format!("each of the {} Zs code points at every position of strings up to length 5 over {{Zs, SP, a, E9, 1F600}}", zs.len()));
    // every non-Zs code point is left alone
    let chunk = 0x400usize;
    let r2 = par(NCP / chunk, |i, rec| {
        let mut s = String::new();
        for cp in (i * chunk) as u32..((i + 1) * chunk) as u32 {
            if let Some(c) = char::from_u32(cp) {
                for t in 0..4 {
                    s.clear();
                    match t {
                        0 => s.push(c),
                        1 => {
                            s.push(' ');
                            s.push(c);
                            s.push(' ')
                        }
                        2 => {
                            s.push_str("a ");
                            s.push(c)
                        }
                        _ => {
                            s.push(c);
                            s.push_str("  d")
                        }
                    }
                    check(env, &s, rec);
                }
            }
        }
    });
    rec.merge(r2);
    rec.exhaustive("every Unicode scalar value c in the contexts c, SP c SP, a SP c, c SP SP d");
    let n = env.n(1_000_000, 30_000_000);
    let per = 2000usize;
    let r3 = par(n.div_ceil(per), |c, rec| {
        let mut rng = Rng::stream(env.seed, 0x12_0000 + c as u64);
        let p = env.pools();
        for j in 0..per {
            let s = if j % 4 == 0 {
                // long strings with runs of spaces
                let mut t = String::new();
                for _ in 0..rng.range(1, 40) {
                    if rng.chance(1, 3) {
                        for _ in 0..rng.range(1, 4) {
                            t.push(if rng.chance(1, 2) { ' ' } else { *rng.pick(&p.zs) });
                        }
                    } else {
                        let k = *rng.pick(&[gen::Kind::Letter, gen::Kind::AsciiLower, gen::Kind::FourByte, gen::Kind::FreePval]);
                        gen::push_kind(p, &mut rng, k, &mut t);
                    }
                }
                t
            } else {
                gen::random_string(p, &mut rng, gen::MIX_FREEFORM, 24)
            };
            check(env, &s, rec);
        }
    });
    rec.merge(r3);
    // long inputs: space runs of every kind at and around power-of-two byte offsets, after pure-ASCII and
    // multi-byte prefixes, trailing spaces after multi-byte words; same-length variants in one buffer
    let n_long = env.n(20_000, 600_000);
    let per = 200usize;
    let r4 = par(n_long.div_ceil(per), |c, rec| {
        let mut rng = Rng::stream(env.seed, 0x12_C000 + c as u64);
        let p = env.pools();
        super::hostile::drive(
            &mut rng,
            per,
            65536,
            |rng| {
                let mut t = String::new();
                match rng.below(6) {
                    0 => t.push_str("  "),
                    1 => t.push(' '),
                    2 => {
                        for _ in 0..rng.range(1, 3) {
                            t.push(if rng.chance(1, 2) { ' ' } else { *rng.pick(&p.zs) });
                        }
                    }
                    3 => {
                        t.push_str("\u{65E5}\u{672C}\u{8A9E}");
                        t.push(' ');
                    }
                    4 => {
                        t.push(*rng.pick(&p.zs));
                        t.push('x');
                        t.push(*rng.pick(&p.zs));
                    }
                    _ => {
                        gen::push_kind(p, rng, gen::Kind::FourByte, &mut t);
                        t.push(' ');
                    }
                }
                t
            },
            |s| check(env, s, rec),
        );
    });
    rec.merge(r4);
    // block-structured strings: every sequence of up to 5 (quick) / 6 (thorough) block-level symbols
    {
        let ml = if env.quick() { 5 } else { 6 };
        let k = super::hostile::SPACE_MACROS.len();
        let total = util::n_strings(k, ml);
        let per = 2048usize;
        let rm = par(total.div_ceil(per), |c, rec| {
            let mut idx = Vec::new();
            let mut s = String::new();
            for n in c * per..((c + 1) * per).min(total) {
                util::nth_seq(k, n, &mut idx);
                s.clear();
                for i in &idx {
                    s.push_str(super::hostile::SPACE_MACROS[*i]);
                }
                check(env, &s, rec);
            }
        });
        rec.merge(rm);
        rec.exhaustive(format!("all sequences of up to {} block-level symbols (16/15-byte ASCII blocks, 18/16-byte multi-byte runs, SP, SP SP, A0, 3000, a, one CJK character)", ml));
    }
    // deterministic: a double / trailing / non-ASCII space at every byte offset 0..=80 of an ASCII and of a mixed word
    for off in 0..=80usize {
        for sp in ["  ", " ", "\u{A0}", "\u{2003}\u{A0}", " \u{3000}"] {
            for fill in ['a', '\u{E9}'] {
                let mut s = String::new();
                while s.len() + fill.len_utf8() <= off {
                    s.push(fill);
                }
                while s.len() < off {
                    s.push('a');
                }
                s.push_str(sp);
                check(env, &s, &mut rec);
                s.push_str("the hermit");
                check(env, &s, &mut rec);
                s.push_str(" \u{65E5}\u{672C}\u{8A9E} ");
                check(env, &s, &mut rec);
            }
        }
    }
    rec
}

pub fn replay(env: &Env, _op: &str, case: &str) -> Rec {
    let mut rec = Rec::new();
    match super::kv_get_last(case, "label").and_then(util::unesc) {
        Some(s) => check(env, &s, &mut rec),
        None => rec.note("HARNESS-ERROR: cannot parse replay case"),
    }
    rec
}
