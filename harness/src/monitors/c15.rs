//! C15 - table generators are faithful to any well-formed UCD input
//!
//! The two real build scripts are included verbatim and their `main` is called
//! in-process on UCD directories written by this monitor; the emitted Rust is
//! read back and compared, for every table, with the ground truth obtained
//! from the input text by the harness' own UCD parser.

use crate::api::guard_v;
use crate::ucd::{self, parse_prop_text, Bitset, UnicodeData, BIDI_NAMES, NCP};
use crate::util::{Rec, Rng, Witness};
use crate::Env;
use precis_core::Codepoints;
use std::collections::HashMap;
use std::path::{Path, PathBuf};

#[allow(dead_code, unexpected_cfgs, clippy::all)]
mod core_build {
    include!("/repo/precis-core/build.rs");
    pub fn run() {
        main()
    }
}

#[allow(dead_code, unexpected_cfgs, clippy::all)]
mod profiles_build {
    include!("/repo/precis-profiles/build.rs");
    pub fn run() {
        main()
    }
}

const GCS: [&str; 30] = [
    "Lu", "Ll", "Lt", "Lm", "Lo", "Mn", "Mc", "Me", "Nd", "Nl", "No", "Pc", "Pd", "Ps", "Pe", "Pi", "Pf", "Po", "Sm", "Sc", "Sk", "So", "Zs", "Zl",
    "Zp", "Cc", "Cf", "Cs", "Co", "Lo",
];

/// (table name, general category) emitted by the core build script
const GC_TABLES: [(&str, &str); 24] = [
    ("LOWERCASE_LETTER", "Ll"),
    ("UPPERCASE_LETTER", "Lu"),
    ("OTHER_LETTER", "Lo"),
    ("DECIMAL_NUMBER", "Nd"),
    ("MODIFIER_LETTER", "Lm"),
    ("NONSPACING_MARK", "Mn"),
    ("SPACING_MARK", "Mc"),
    ("CONTROL", "Cc"),
    ("SPACE_SEPARATOR", "Zs"),
    ("MATH_SYMBOL", "Sm"),
    ("CURRENCY_SYMBOL", "Sc"),
    ("MODIFIER_SYMBOL", "Sk"),
    ("OTHER_SYMBOL", "So"),
    ("CONNECTOR_PUNCTUATION", "Pc"),
    ("DASH_PUNCTUATION", "Pd"),
    ("OPEN_PUNCTUATION", "Ps"),
    ("CLOSE_PUNCTUATION", "Pe"),
    ("INITIAL_PUNCTUATION", "Pi"),
    ("FINAL_PUNCTUATION", "Pf"),
    ("OTHER_PUNCTUATION", "Po"),
    ("TITLECASE_LETTER", "Lt"),
    ("LETTER_NUMBER", "Nl"),
    ("OTHER_NUMBER", "No"),
    ("ENCLOSING_MARK", "Me"),
];

// ------------------------------------------------------------ input model --

#[derive(Clone, Debug)]
struct Entry {
    lo: u32,
    hi: u32,
    range: bool,
    gc: String,
    ccc: u8,
    bidi: String,
    decomp: String,
}

fn is_nonchar(cp: u32) -> bool {
    (0xFDD0..=0xFDEF).contains(&cp) || (cp & 0xFFFE) == 0xFFFE
}

fn render_unicode_data(es: &[Entry]) -> String {
    let mut t = String::new();
    for e in es {
        let tail = format!("{};{};{};{};;;;N;;;;;", e.gc, e.ccc, e.bidi, e.decomp);
        if e.range {
            // range identifiers as UAX #44 has them: words, digits, blanks and hyphens ("Egyptian Hieroglyph Extended-A")
            let id = match e.lo % 4 {
                0 => format!("Synth {:X}", e.lo),
                1 => format!("Synth Ideograph Extended-A {:X}", e.lo),
                2 => format!("Synth-Supplement {:X}", e.lo),
                _ => format!("Plane {} Private Use {:X}", e.lo >> 16, e.lo),
            };
            t.push_str(&format!("{:04X};<{}, First>;{}\n", e.lo, id, tail));
            t.push_str(&format!("{:04X};<{}, Last>;{}\n", e.hi, id, tail));
        } else {
            match e.lo % 7 {
                0 => t.push_str(&format!("{:04X};<control>;{}\n", e.lo, tail)),
                1 => t.push_str(&format!("{:04X};SYNTH-{:04X} LETTER WITH-HYPHEN;{}\n", e.lo, e.lo, tail)),
                _ => t.push_str(&format!("{:04X};SYNTH {:04X};{}\n", e.lo, e.lo, tail)),
            }
        }
    }
    t
}

/// entries from real UnicodeData lines (First/Last folded)
fn entries_of(ud: &UnicodeData) -> Vec<Entry> {
    let mut v = Vec::new();
    let mut first: Option<u32> = None;
    for l in &ud.lines {
        if l.name.ends_with(", First>") {
            first = Some(l.cp);
            continue;
        }
        let (lo, range) = match first.take() {
            Some(f) => (f, true),
            None => (l.cp, false),
        };
        v.push(Entry { lo, hi: l.cp, range, gc: l.gc.clone(), ccc: l.ccc, bidi: l.bidi.clone(), decomp: l.decomp.clone() });
    }
    v
}

struct Shape {
    ranges: usize,
    range_next_to_other_value: usize,
    range_next_to_same_value: usize,
    first_is_zero: bool,
    last_cp: u32,
}

fn shape_of(es: &[Entry]) -> Shape {
    let mut s = Shape { ranges: 0, range_next_to_other_value: 0, range_next_to_same_value: 0, first_is_zero: es.first().map(|e| e.lo == 0).unwrap_or(false), last_cp: es.last().map(|e| e.hi).unwrap_or(0) };
    for (i, e) in es.iter().enumerate() {
        if !e.range {
            continue;
        }
        s.ranges += 1;
        for n in [i.checked_sub(1).and_then(|j| es.get(j)), es.get(i + 1)].into_iter().flatten() {
            let adjacent = n.hi + 1 == e.lo || e.hi + 1 == n.lo;
            if adjacent {
                if n.bidi != e.bidi || n.gc != e.gc {
                    s.range_next_to_other_value += 1;
                } else {
                    s.range_next_to_same_value += 1;
                }
            }
        }
    }
    s
}

/// purely synthetic, well-formed UnicodeData: sorted, unique, no noncharacters
fn synth_entries(rng: &mut Rng, for_profiles: bool) -> Vec<Entry> {
    let mut es = Vec::new();
    let mut cp: u32 = if rng.chance(1, 2) { 0 } else { rng.below(0x300) as u32 };
    let end: u32 = match rng.below(4) {
        0 => 0x10FFFD,
        1 => 0x2000 + rng.below(0x3000) as u32,
        2 => 0x20000 + rng.below(0x20000) as u32,
        _ => 0xFF00 + rng.below(0x200) as u32,
    };
    let budget = rng.range(20, 900);
    let bidis: Vec<&str> = if rng.chance(1, 2) { vec!["L", "R", "AL", "NSM", "EN", "AN", "ON"] } else { BIDI_NAMES.to_vec() };
    let mut gc = *rng.pick(&GCS);
    let mut bidi = *rng.pick(&bidis);
    let mut ccc = 0u8;
    while es.len() < budget && cp <= end {
        // persistent values make runs; change them now and then
        if rng.chance(1, 3) {
            gc = *rng.pick(&GCS);
        }
        if rng.chance(1, 3) {
            bidi = *rng.pick(&bidis);
        }
        if rng.chance(1, 5) {
            ccc = *rng.pick(&[0u8, 9, 230, 7, 9]);
        }
        let kind = rng.below(10);
        let (lo, hi, range) = match kind {
            0..=4 => (cp, cp, false),
            5 | 6 => {
                let len = if rng.chance(1, 6) { rng.range(500, 40000) as u32 } else { rng.range(1, 40) as u32 };
                (cp, cp + len, true)
            }
            7 => (cp, cp, true), // First == Last is legal
            _ => {
                // gap
                cp += if rng.chance(1, 8) { rng.range(100, 60000) as u32 } else { rng.range(1, 6) as u32 };
                continue;
            }
        };
        if hi > end || hi > 0x10FFFD || (lo..=hi.min(lo + 70000)).any(is_nonchar) || (lo <= 0xFDD0 && hi >= 0xFDD0) || (lo >> 16 != hi >> 16) {
            cp = hi.max(cp) + 1;
            while is_nonchar(cp) {
                cp += 1;
            }
            continue;
        }
        let decomp = if !range && rng.chance(1, 6) {
            let target = rng.below(0x3000) as u32 + 0x20;
            match rng.below(5) {
                0 => format!("<wide> {:04X}", target),
                1 => format!("<narrow> {:04X}", target),
                2 => format!("<compat> {:04X}", target),
                3 => format!("{:04X} {:04X}", target, 0x300 + rng.below(0x20) as u32),
                _ => format!("<font> {:04X}", target),
            }
        } else {
            String::new()
        };
        let _ = for_profiles;
        es.push(Entry { lo, hi, range, gc: gc.to_string(), ccc, bidi: bidi.to_string(), decomp });
        cp = hi + 1;
        // adjacency: mostly continue directly, sometimes leave a gap of exactly 1
        if rng.chance(1, 6) {
            cp += 1;
        }
        while is_nonchar(cp) {
            cp += 1;
        }
    }
    // like the real file: sometimes end with the plane-16 private use range, up to U+10FFFD - or one further,
    // at U+10FFFE (syntactically fine; leaves a one-code-point tail gap), as a range or as a single
    if rng.chance(1, 3) && es.last().map(|e| e.hi < 0x100000).unwrap_or(true) {
        let hi = if rng.chance(1, 3) { 0x10FFFE } else { 0x10FFFD };
        es.push(Entry { lo: 0x100000, hi, range: true, gc: "Co".into(), ccc: 0, bidi: "L".into(), decomp: String::new() });
    } else if rng.chance(1, 12) && es.last().map(|e| e.hi < 0x10FFF0).unwrap_or(true) {
        es.push(Entry { lo: 0x10FFFE, hi: 0x10FFFE, range: false, gc: "Co".into(), ccc: 0, bidi: "L".into(), decomp: String::new() });
    }
    es
}

/// perturbation of a real file: window, re-assignment in runs, folding and splitting
fn perturb_entries(rng: &mut Rng, base: &[Entry]) -> Vec<Entry> {
    let n = base.len();
    let a = rng.below(n);
    let len = rng.range(50, 4000).min(n - a);
    let mut es: Vec<Entry> = base[a..a + len].to_vec();
    if rng.chance(1, 2) {
        // keep a random subset
        let keep = rng.range(40, 95);
        es.retain(|_| rng.below(100) < keep);
    }
    if rng.chance(2, 3) {
        // re-assign values in runs
        let mut i = 0;
        while i < es.len() {
            let run = rng.range(1, 12);
            let gc = *rng.pick(&GCS);
            let bidi = *rng.pick(&BIDI_NAMES);
            let what = rng.below(3);
            for e in es.iter_mut().skip(i).take(run) {
                if what != 1 {
                    e.bidi = bidi.to_string();
                }
                if what != 0 {
                    e.gc = gc.to_string();
                }
            }
            i += run + rng.below(20);
        }
    }
    // split small ranges into singles / fold runs of adjacent equal singles into ranges
    let mut out: Vec<Entry> = Vec::new();
    let mut i = 0;
    while i < es.len() {
        let e = es[i].clone();
        if e.range && e.hi - e.lo < 48 && rng.chance(1, 2) {
            for cp in e.lo..=e.hi {
                out.push(Entry { lo: cp, hi: cp, range: false, ..e.clone() });
            }
            i += 1;
            continue;
        }
        if !e.range && rng.chance(1, 4) {
            let mut j = i;
            while j + 1 < es.len()
                && !es[j + 1].range
                && es[j + 1].lo == es[j].hi + 1
                && es[j + 1].gc == e.gc
                && es[j + 1].bidi == e.bidi
                && es[j + 1].ccc == e.ccc
                && es[j + 1].decomp.is_empty()
                && e.decomp.is_empty()
            {
                j += 1;
            }
            if j > i {
                out.push(Entry { lo: e.lo, hi: es[j].hi, range: true, ..e.clone() });
                i = j + 1;
                continue;
            }
        }
        out.push(e);
        i += 1;
    }
    out
}

fn random_intervals(rng: &mut Rng, max_cp: u32) -> Vec<(u32, u32)> {
    let mut v = random_intervals_inner(rng, max_cp);
    // edge shapes: an interval straddling a plane boundary, one ending at the last code point, a very long run
    let last = v.last().map(|x| x.1).unwrap_or(0);
    if rng.chance(1, 4) && last < 0xFFF0 {
        v.push((0xFFFE - rng.below(3) as u32, 0x10001 + rng.below(3) as u32));
    }
    let last = v.last().map(|x| x.1).unwrap_or(0);
    if rng.chance(1, 4) && last < 0x30000 {
        v.push((0x30000 + rng.below(0x1000) as u32, 0x30000 + 0x1000 + rng.below(90_000) as u32));
    }
    let last = v.last().map(|x| x.1).unwrap_or(0);
    if rng.chance(1, 4) && last < 0x10FF00 {
        let lo = 0x10FFFF - rng.below(40) as u32;
        v.push((lo, 0x10FFFF));
    }
    v
}

fn random_intervals_inner(rng: &mut Rng, max_cp: u32) -> Vec<(u32, u32)> {
    let mut v = Vec::new();
    let mut cp = rng.below(0x400) as u32;
    let n = rng.range(0, 25);
    for _ in 0..n {
        let len = match rng.below(4) {
            0 => 0,
            1 => rng.below(4) as u32,
            _ => rng.below(300) as u32,
        };
        if cp + len > max_cp {
            break;
        }
        v.push((cp, cp + len));
        cp += len + 1 + if rng.chance(1, 3) { 0 } else { rng.below(5000) as u32 };
    }
    v
}

fn render_prop_file(sets: &[(&str, Vec<(u32, u32)>)], rng: &mut Rng) -> String {
    let t = render_prop_file_sorted(sets, rng);
    // UAX #44 does not promise any order of the lines: sometimes shuffle the lines of the whole file (values
    // interleaved, as in files ordered by code point) or reverse them
    match rng.below(5) {
        0 => {
            let mut lines: Vec<&str> = t.lines().filter(|l| !l.is_empty() && !l.starts_with('#')).collect();
            rng.shuffle(&mut lines);
            format!("# synthetic, shuffled\n{}\n", lines.join("\n"))
        }
        1 => {
            let mut lines: Vec<&str> = t.lines().filter(|l| !l.is_empty() && !l.starts_with('#')).collect();
            lines.reverse();
            format!("# synthetic, descending\n{}\n", lines.join("\n"))
        }
        2 => {
            // ordered by code point, values interleaved
            let mut lines: Vec<&str> = t.lines().filter(|l| !l.is_empty() && !l.starts_with('#')).collect();
            lines.sort_by_key(|l| u32::from_str_radix(l.split(|c: char| !c.is_ascii_hexdigit()).next().unwrap_or("0"), 16).unwrap_or(0));
            format!("# synthetic, by code point\n{}\n", lines.join("\n"))
        }
        _ => t,
    }
}

fn render_prop_file_sorted(sets: &[(&str, Vec<(u32, u32)>)], rng: &mut Rng) -> String {
    let mut t = String::from("# synthetic\n\n");
    for (name, ivs) in sets {
        for (lo, hi) in ivs {
            // a file may spell an interval as one range line or as several adjacent lines
            if hi > lo && rng.chance(1, 4) {
                let mid = lo + rng.below((hi - lo) as usize) as u32;
                t.push_str(&format!("{:04X}..{:04X}    ; {} # part\n", lo, mid, name));
                if mid + 1 == *hi {
                    t.push_str(&format!("{:04X}          ; {} # single\n", hi, name));
                } else {
                    t.push_str(&format!("{:04X}..{:04X}    ; {} # part\n", mid + 1, hi, name));
                }
            } else if hi == lo {
                t.push_str(&format!("{:04X}          ; {} # single\n", lo, name));
            } else {
                t.push_str(&format!("{:04X}..{:04X}    ; {} # range\n", lo, hi, name));
            }
        }
        t.push('\n');
    }
    t
}

/// partition-like interval lists for an enumerated property (each cp at most one value)
fn enumerated(rng: &mut Rng, values: &[&'static str]) -> Vec<(&'static str, Vec<(u32, u32)>)> {
    let ivs = random_intervals(rng, 0x2FFFF);
    let mut m: Vec<(&'static str, Vec<(u32, u32)>)> = values.iter().map(|v| (*v, Vec::new())).collect();
    for iv in ivs {
        let k = rng.below(values.len());
        m[k].1.push(iv);
    }
    m
}

struct InputFiles {
    unicode_data: String,
    prop_list: String,
    dcp: String,
    hst: String,
    scripts: String,
    djt: String,
}

fn write_dir(root: &Path, f: &InputFiles, aliases: &str) -> std::io::Result<()> {
    let ucd = root.join("resources/ucd");
    std::fs::create_dir_all(ucd.join("extracted"))?;
    std::fs::create_dir_all(root.join("out"))?;
    std::fs::write(ucd.join("UnicodeData.txt"), &f.unicode_data)?;
    std::fs::write(ucd.join("PropList.txt"), &f.prop_list)?;
    std::fs::write(ucd.join("DerivedCoreProperties.txt"), &f.dcp)?;
    std::fs::write(ucd.join("HangulSyllableType.txt"), &f.hst)?;
    std::fs::write(ucd.join("Scripts.txt"), &f.scripts)?;
    std::fs::write(ucd.join("PropertyValueAliases.txt"), aliases)?;
    std::fs::write(ucd.join("extracted/DerivedJoiningType.txt"), &f.djt)?;
    Ok(())
}

// ------------------------------------------------------ emitted code parser --

#[derive(Debug, Clone)]
struct Table {
    name: String,
    declared: usize,
    tuple: bool,
    /// a table whose entries are not Codepoints expressions (not one this monitor knows): skipped, never judged
    opaque: bool,
    /// rows are plain `(first, last, value)` triples, no Codepoints expression
    plain: bool,
    entries: Vec<(u32, u32, bool, String)>, // start, end, is_range, value text
}

/// an integer literal as rustc reads it: 0x.. / decimal, `_` separators, optional u32 suffix
fn intval(s: &str) -> Option<u32> {
    let t = s.trim().trim_end_matches("u32").trim_end_matches('_').replace('_', "");
    match t.strip_prefix("0x").or_else(|| t.strip_prefix("0X")) {
        Some(h) => u32::from_str_radix(h, 16).ok(),
        None => t.parse().ok(),
    }
}

/// a value as the monitor compares it: integer literals in one spelling, anything else verbatim
fn norm_val(v: &str) -> String {
    match intval(v) {
        Some(n) => format!("{:#06x}", n),
        None => v.trim().to_string(),
    }
}

/// split at commas that are not inside parentheses / brackets
fn split_top(s: &str) -> Vec<&str> {
    let mut out = Vec::new();
    let (mut depth, mut start) = (0i32, 0usize);
    for (i, c) in s.char_indices() {
        match c {
            '(' | '[' | '{' => depth += 1,
            ')' | ']' | '}' => depth -= 1,
            ',' if depth == 0 => {
                out.push(s[start..i].trim());
                start = i + 1;
            }
            _ => {}
        }
    }
    let last = s[start..].trim();
    if !last.is_empty() {
        out.push(last);
    }
    out
}

/// `Codepoints::Single(x)` / `Codepoints::Range(RangeInclusive::new(a, b))` / `Codepoints::Range(a..=b)` and the same
/// through constructor functions of any capitalisation (`Codepoints::single(x)`, `Codepoints::range(a, b)`)
fn parse_codepoints_expr(e: &str) -> Option<(u32, u32, bool)> {
    let rest = e.trim().strip_prefix("Codepoints::")?;
    let open = rest.find('(')?;
    let (name, args) = (rest[..open].to_ascii_lowercase(), rest[open + 1..].trim().strip_suffix(')')?.trim());
    match name.as_str() {
        "single" => intval(args).map(|v| (v, v, false)),
        "range" => {
            let inner = match args.find("RangeInclusive::new(") {
                Some(k) => args[k + "RangeInclusive::new(".len()..].strip_suffix(')')?,
                None => args,
            };
            let (a, b) = inner.split_once("..=").or_else(|| inner.split_once(','))?;
            Some((intval(a)?, intval(b)?, true))
        }
        _ => None,
    }
}

/// Reads the tables out of an emitted file. Layout-independent within reason: any number of entries per line,
/// comments and doc comments anywhere, entries as Codepoints expressions (alone or first in a tuple) or plain
/// `(first, last, value)` integer triples. A table whose items are anything else is `opaque` (never judged).
fn parse_emitted(text: &str) -> Result<Vec<Table>, String> {
    // drop comments (no string literals occur in the emitted tables)
    let clean: String = text.lines().map(|l| l.split("//").next().unwrap_or("")).collect::<Vec<_>>().join("\n");
    let mut tables = Vec::new();
    let mut pos = 0usize;
    while let Some(k) = clean[pos..].find("static ").or_else(|| clean[pos..].find("const ")) {
        let at = pos + k;
        let kw = if clean[at..].starts_with("static ") { 7 } else { 6 };
        let head_end = match clean[at..].find('=') {
            Some(e) => at + e,
            None => break,
        };
        let head = &clean[at + kw..head_end];
        // only array items: `NAME: [T; N]` (anything else - `const fn`, a scalar constant - is skipped by its keyword
        // only, so that the `=` of a later table is not swallowed)
        let (name, ty) = match head.split_once(':') {
            Some((n, t)) if t.trim().starts_with('[') && n.trim().chars().all(|c| c.is_ascii_alphanumeric() || c == '_') => (n.trim().to_string(), t.trim()),
            _ => {
                pos = at + kw;
                continue;
            }
        };
        pos = head_end + 1;
        let semi = ty.rfind(';').ok_or(format!("bad header {}", head.trim()))?;
        let elem = ty[1..semi].trim();
        let declared: usize = ty[semi + 1..].trim().trim_end_matches(']').trim().parse().map_err(|_| format!("bad header {}", head.trim()))?;
        // body: from the '[' after '=' to the matching ']'
        let open = match clean[pos..].find('[') {
            Some(o) => pos + o,
            None => return Err(format!("no body for {}", name)),
        };
        let mut depth = 0i32;
        let mut close = None;
        for (i, c) in clean[open..].char_indices() {
            match c {
                '[' | '(' | '{' => depth += 1,
                ']' | ')' | '}' => {
                    depth -= 1;
                    if depth == 0 {
                        close = Some(open + i);
                        break;
                    }
                }
                _ => {}
            }
        }
        let close = close.ok_or(format!("unterminated body of {}", name))?;
        let body = &clean[open + 1..close];
        pos = close + 1;
        let tuple = elem.starts_with('(');
        let plain = elem.replace(' ', "").starts_with("(u32,u32,");
        let mut t = Table { name, declared, tuple, opaque: false, plain, entries: Vec::new() };
        for item in split_top(body) {
            let parsed = if tuple {
                item.strip_prefix('(').and_then(|x| x.strip_suffix(')')).and_then(|inner| {
                    let parts = split_top(inner);
                    if plain {
                        (parts.len() == 3).then(|| Some((intval(parts[0])?, intval(parts[1])?, true, norm_val(parts[2])))).flatten()
                    } else {
                        (parts.len() == 2).then(|| parse_codepoints_expr(parts[0]).map(|(a, b, r)| (a, b, r, norm_val(parts[1])))).flatten()
                    }
                })
            } else {
                parse_codepoints_expr(item).map(|(a, b, r)| (a, b, r, String::new()))
            };
            match parsed {
                Some(e) => t.entries.push(e),
                None => {
                    t.opaque = true;
                    t.entries.clear();
                    break;
                }
            }
        }
        tables.push(t);
    }
    Ok(tables)
}

// ------------------------------------------------------------- comparison --

/// expected denotation of one table: sorted disjoint intervals with a value
type Truth = Vec<(u32, u32, String)>;

fn truth_from_fn<F: Fn(u32) -> Option<String>>(f: F) -> Truth {
    let mut v: Truth = Vec::new();
    for cp in 0..NCP as u32 {
        if let Some(val) = f(cp) {
            match v.last_mut() {
                Some(l) if l.1 + 1 == cp && l.2 == val => l.1 = cp,
                _ => v.push((cp, cp, val)),
            }
        }
    }
    v
}

fn truth_from_bitset(b: &Bitset) -> Truth {
    truth_from_fn(|cp| b.has(cp).then(String::new))
}

fn lookup_truth(t: &Truth, cp: u32) -> Option<&str> {
    match t.binary_search_by(|e| if e.1 < cp { std::cmp::Ordering::Less } else if e.0 > cp { std::cmp::Ordering::Greater } else { std::cmp::Ordering::Equal }) {
        Ok(i) => Some(t[i].2.as_str()),
        Err(_) => None,
    }
}

/// the library's way of searching a table
fn lib_lookup(tab: &[Codepoints], cp: u32) -> Option<usize> {
    tab.binary_search_by(|e| e.partial_cmp(&cp).unwrap()).ok()
}

fn check_table(t: &Table, truth: &Truth, case: &str, rec: &mut Rec) {
    rec.eval();
    let viol = |rec: &mut Rec, sig: &str, exp: String, obs: String| {
        rec.violation(sig, Witness { op: format!("generated table {}", t.name), case: case.to_string(), expected: exp, observed: obs });
    };
    if t.declared != t.entries.len() {
        viol(rec, "generated-table-declares-wrong-length", format!("{} entries", t.entries.len()), format!("[..; {}]", t.declared));
    }
    let inverted = t.entries.iter().filter(|e| e.0 > e.1).count();
    if inverted > 0 {
        rec.count_n("observed:inverted-empty-entries", inverted as u64);
    }
    let sorted = t.entries.windows(2).all(|w| w[0].1 < w[1].0) && inverted == 0;
    let tab: Vec<Codepoints> = t.entries.iter().map(|e| if e.2 { Codepoints::Range(e.0..=e.1) } else { Codepoints::Single(e.0) }).collect();
    // every code point at which something can change: entry and truth boundaries +-1, plus the ends
    let mut probes: Vec<u32> = vec![0, 1, 0x10FFFE, 0x10FFFF, 0xFFFF, 0x10000];
    for e in &t.entries {
        probes.extend([e.0.saturating_sub(1), e.0, e.0 + 1, e.1.saturating_sub(1), e.1, (e.1 + 1).min(0x10FFFF)]);
    }
    for e in truth {
        probes.extend([e.0.saturating_sub(1), e.0, e.1, (e.1 + 1).min(0x10FFFF), e.0 + (e.1 - e.0) / 2]);
    }
    rec.evals(if sorted { probes.len() as u64 } else { NCP as u64 });
    let full = !sorted; // anomalies: decide by looking up every code point
    let all: Box<dyn Iterator<Item = u32>> = if full { Box::new(0..NCP as u32) } else { Box::new(probes.into_iter()) };
    let mut reported = 0;
    for cp in all {
        let got = guard_v(|| lib_lookup(&tab, cp));
        let got_val = match &got {
            crate::api::Out::Ok(Some(i)) => {
                let e = &t.entries[*i];
                if !(e.0 <= cp && cp <= e.1) {
                    Some(format!("entry {:X}-{:X} which does not contain the code point", e.0, e.1))
                } else {
                    Some(e.3.clone())
                }
            }
            crate::api::Out::Ok(None) => None,
            _ => Some("PANIC".to_string()),
        };
        let want = lookup_truth(truth, cp).map(|s| s.to_string());
        if got_val != want && reported < 3 {
            reported += 1;
            viol(
                rec,
                &format!("generated-table-lookup-differs-from-input:{}", t.name),
                format!("U+{:04X} -> {:?}", cp, want),
                format!("U+{:04X} -> {:?}", cp, got_val),
            );
        }
    }
    if sorted {
        // exact denotation: the union of the entries equals the truth (interval arithmetic over all code points)
        let mut merged: Truth = Vec::new();
        for e in &t.entries {
            match merged.last_mut() {
                Some(l) if l.1 + 1 == e.0 && l.2 == e.3 => l.1 = e.1,
                _ => merged.push((e.0, e.1, e.3.clone())),
            }
        }
        if merged != *truth && reported == 0 {
            let i = (0..merged.len().max(truth.len())).find(|i| merged.get(*i) != truth.get(*i)).unwrap_or(0);
            viol(
                rec,
                &format!("generated-table-denotation-differs-from-input:{}", t.name),
                format!("{:X?}", truth.get(i)),
                format!("{:X?}", merged.get(i)),
            );
        }
    } else {
        // duplicates with different values
        for (i, a) in t.entries.iter().enumerate() {
            for b in t.entries.iter().skip(i + 1).take(8) {
                if a.0 <= b.1 && b.0 <= a.1 && a.3 != b.3 && a.0 <= a.1 && b.0 <= b.1 {
                    viol(
                        rec,
                        &format!("generated-table-covers-a-code-point-twice-with-different-values:{}", t.name),
                        "disjoint entries".into(),
                        format!("{:X}-{:X}={} and {:X}-{:X}={}", a.0, a.1, a.3, b.0, b.1, b.3),
                    );
                    return;
                }
            }
        }
    }
}

struct Ground {
    ud: UnicodeData,
    props: HashMap<&'static str, Truth>,
}

fn core_truths(f: &InputFiles) -> Ground {
    let ud = UnicodeData::from_text(&f.unicode_data);
    let mut props: HashMap<&'static str, Truth> = HashMap::new();
    let pl = parse_prop_text(&f.prop_list);
    let dcp = parse_prop_text(&f.dcp);
    let hst = parse_prop_text(&f.hst);
    let sc = parse_prop_text(&f.scripts);
    let jt = parse_prop_text(&f.djt);
    props.insert("JOIN_CONTROL", truth_from_bitset(&ucd::bitset_of(&pl, "Join_Control")));
    props.insert("NONCHARACTER_CODE_POINT", truth_from_bitset(&ucd::bitset_of(&pl, "Noncharacter_Code_Point")));
    props.insert("DEFAULT_IGNORABLE_CODE_POINT", truth_from_bitset(&ucd::bitset_of(&dcp, "Default_Ignorable_Code_Point")));
    props.insert("LEADING_JAMO", truth_from_bitset(&ucd::bitset_of(&hst, "L")));
    props.insert("VOWEL_JAMO", truth_from_bitset(&ucd::bitset_of(&hst, "V")));
    props.insert("TRAILING_JAMO", truth_from_bitset(&ucd::bitset_of(&hst, "T")));
    for (t, s) in [("GREEK", "Greek"), ("HEBREW", "Hebrew"), ("HIRAGANA", "Hiragana"), ("KATAKANA", "Katakana"), ("HAN", "Han")] {
        props.insert(t, truth_from_bitset(&ucd::bitset_of(&sc, s)));
    }
    for (t, s) in [("DUAL_JOINING", "D"), ("LEFT_JOINING", "L"), ("RIGHT_JOINING", "R"), ("TRANSPARENT", "T")] {
        props.insert(t, truth_from_bitset(&ucd::bitset_of(&jt, s)));
    }
    Ground { ud, props }
}

fn check_core_output(out: &Path, g: &Ground, case: &str, rec: &mut Rec) -> Option<Vec<Table>> {
    let mut all = Vec::new();
    for file in ["context_tables.rs", "precis_tables.rs"] {
        let text = match std::fs::read_to_string(out.join(file)) {
            Ok(t) => t,
            Err(e) => {
                rec.note(format!("HARNESS-ERROR: cannot read emitted {}: {}", file, e));
                return None;
            }
        };
        match parse_emitted(&text) {
            Ok(t) => all.extend(t),
            Err(e) => {
                rec.note(format!("HARNESS-ERROR: cannot parse emitted {}: {}", file, e));
                return None;
            }
        }
    }
    let ud = &g.ud;
    let mut seen = 0;
    for t in all.iter().filter(|t| t.opaque) {
        rec.note(format!("emitted table {} has entries this monitor does not read (observed only, not judged)", t.name));
    }
    for t in all.iter().filter(|t| !t.opaque) {
        let truth: Option<Truth> = if let Some((_, gc)) = GC_TABLES.iter().find(|(n, _)| *n == t.name) {
            let g2 = gc.as_bytes();
            Some(truth_from_fn(|cp| (ud.assigned.has(cp) && ud.gc[cp as usize] == [g2[0], g2[1]]).then(String::new)))
        } else if t.name == "VIRAMA" {
            Some(truth_from_fn(|cp| (ud.assigned.has(cp) && ud.ccc[cp as usize] == 9).then(String::new)))
        } else if t.name == "UNASSIGNED" {
            Some(truth_from_fn(|cp| (!ud.assigned.has(cp)).then(String::new)))
        } else if t.name == "ASCII7" {
            Some(vec![(0x21, 0x7e, String::new())])
        } else if t.name == "EXCEPTIONS" || t.name == "BACKWARD_COMPATIBLE" {
            None // fixed content, owned by C14
        } else {
            match g.props.get(t.name.as_str()) {
                Some(tr) => Some(tr.clone()),
                None => {
                    rec.note(format!("emitted table {} is unknown to the monitor (observed only, not judged)", t.name));
                    None
                }
            }
        };
        if let Some(tr) = truth {
            seen += 1;
            check_table(t, &tr, &format!("{};table={}", case, t.name), rec);
        }
    }
    // fewer judged tables than the build script emits today: the monitor does not know the new layout (tables
    // merged, renamed or in a form it cannot read). Nothing is decided about what it could not judge.
    if seen < 40 {
        let unread = all.iter().filter(|t| t.opaque).count();
        rec.note(format!("HARNESS-ERROR: only {} UCD-derived core tables could be judged ({} emitted tables unreadable, {} emitted in all): the monitor does not know this layout", seen, unread, all.len()));
    }
    Some(all)
}

fn check_profiles_output(out: &Path, ud: &UnicodeData, case: &str, rec: &mut Rec) -> Option<Vec<Table>> {
    let mut all = Vec::new();
    for file in ["bidi_class.rs", "space_separator.rs", "width_mapping.rs"] {
        let text = match std::fs::read_to_string(out.join(file)) {
            Ok(t) => t,
            Err(e) => {
                rec.note(format!("HARNESS-ERROR: cannot read emitted {}: {}", file, e));
                return None;
            }
        };
        match parse_emitted(&text) {
            Ok(t) => all.extend(t),
            Err(e) => {
                rec.note(format!("HARNESS-ERROR: cannot parse emitted {}: {}", file, e));
                return None;
            }
        }
    }
    let mut seen = 0;
    for t in all.iter().filter(|t| !t.opaque) {
        let truth = match t.name.as_str() {
            "BIDI_CLASS_TABLE" => truth_from_fn(|cp| ud.assigned.has(cp).then(|| format!("BidiClass::{}", BIDI_NAMES[ud.bidi[cp as usize] as usize]))),
            "SPACE_SEPARATOR" => truth_from_fn(|cp| (ud.assigned.has(cp) && ud.gc[cp as usize] == *b"Zs").then(String::new)),
            "WIDE_NARROW_MAPPING" => truth_from_fn(|cp| match ud.decomp.get(&cp) {
                Some((Some(tag), map)) if (tag == "wide" || tag == "narrow") && !map.is_empty() => Some(format!("{:#06x}", map[0])),
                _ => None,
            }),
            other => {
                rec.note(format!("emitted table {} is unknown to the monitor (observed only, not judged)", other));
                continue;
            }
        };
        seen += 1;
        check_table(t, &truth, &format!("{};table={}", case, t.name), rec);
    }
    if seen != 3 {
        rec.note(format!("HARNESS-ERROR: only {} of the 3 profile tables could be judged ({} emitted in all): the monitor does not know this layout", seen, all.len()));
    }
    Some(all)
}

/// run one of the real build scripts on `root` (CARGO_MANIFEST_DIR) -> root/out
fn run_build(root: &Path, core: bool) -> Result<(), String> {
    // the scripts read their directories from the environment at run time
    std::env::set_var("CARGO_MANIFEST_DIR", root);
    std::env::set_var("OUT_DIR", root.join("out"));
    let r = std::panic::catch_unwind(|| {
        if core {
            core_build::run()
        } else {
            profiles_build::run()
        }
    });
    r.map_err(|_| "build script panicked (generator returned an error)".to_string())
}

/// compile the emitted files with rustc and let the compiled program report each
/// table's length and a checksum: confirms the text parser reads what the compiler reads
fn compile_crosscheck(root: &Path, core_out: &Path, tables: &[Table], files: &[&str], rec: &mut Rec, case: &str) {
    let mut includes = String::from("#![allow(warnings)]\n");
    includes.push_str(&format!("include!({:?});\n", core_out.join("public.rs")));
    for f in files {
        includes.push_str(&format!("include!({:?});\n", root.join("out").join(f)));
    }
    let main = root.join("crosscheck.rs");
    let bin = root.join("crosscheck.bin");
    let rustc = |src: &str| -> Result<Result<(), String>, String> {
        std::fs::write(&main, src).map_err(|e| e.to_string())?;
        let o = std::process::Command::new("rustc").args(["--edition", "2018", "-o"]).arg(&bin).arg(&main).output().map_err(|e| e.to_string())?;
        Ok(if o.status.success() { Ok(()) } else { Err(String::from_utf8_lossy(&o.stderr).to_string()) })
    };
    // stage 1: the emitted files alone (with the emitted Codepoints type). An error here is the emitted code's
    // own, unless it is only about names the files expect from their crate (then the monitor lacks the context)
    match rustc(&format!("{}fn main() {{}}\n", includes)) {
        Err(e) => {
            rec.note(format!("rustc not runnable for the cross-check: {}", e));
            return;
        }
        Ok(Err(stderr)) => {
            let codes: Vec<&str> = stderr.lines().filter_map(|l| l.strip_prefix("error[")).filter_map(|l| l.split(']').next()).collect();
            let unresolved_only = !codes.is_empty() && codes.iter().all(|c| ["E0412", "E0425", "E0432", "E0433", "E0405", "E0531", "E0574"].contains(c));
            if unresolved_only {
                rec.note("emitted files refer to names from their crate: not compiled stand-alone (observed only, not judged)");
            } else {
                rec.violation(
                    "generated-code-does-not-compile",
                    Witness { op: "rustc on the emitted files".into(), case: case.to_string(), expected: "compiles".into(), observed: stderr.chars().take(600).collect() },
                );
            }
            return;
        }
        Ok(Ok(())) => {}
    }
    // stage 2: a driver that prints each table's length and a checksum, to confirm that the text parser reads
    // what the compiler reads. A failure here is the driver's (it assumes an element type), never the library's
    let mut src = includes.clone();
    src.push_str("fn ck(e: &Codepoints) -> u64 { match e { Codepoints::Single(c) => (*c as u64) * 31 + 7, Codepoints::Range(r) => (*r.start() as u64) * 131 + (*r.end() as u64) * 17 + 3 } }\nfn main() {\n");
    for t in tables.iter().filter(|t| !t.opaque) {
        let elem = if t.plain {
            "(e.0 as u64) * 131 + (e.1 as u64) * 17 + 3"
        } else if t.tuple {
            "ck(&e.0)"
        } else {
            "ck(e)"
        };
        src.push_str(&format!("  println!(\"{} {{}} {{}}\", {}.len(), {}.iter().map(|e| {}).fold(0u64, |a, b| a.wrapping_mul(1000003).wrapping_add(b)));\n", t.name, t.name, t.name, elem));
    }
    src.push_str("}\n");
    match rustc(&src) {
        Ok(Ok(())) => {}
        Ok(Err(stderr)) => {
            rec.note(format!("HARNESS-ERROR: the cross-check driver does not compile against the emitted tables: {}", stderr.chars().take(300).collect::<String>()));
            return;
        }
        Err(e) => {
            rec.note(format!("rustc not runnable for the cross-check: {}", e));
            return;
        }
    }
    let out = std::process::Command::new(&bin).output();
    let text = out.map(|o| String::from_utf8_lossy(&o.stdout).to_string()).unwrap_or_default();
    let mut ok = 0;
    for t in tables.iter().filter(|t| !t.opaque) {
        let ck = t.entries.iter().map(|e| if e.2 { (e.0 as u64) * 131 + (e.1 as u64) * 17 + 3 } else { (e.0 as u64) * 31 + 7 }).fold(0u64, |a, b| a.wrapping_mul(1000003).wrapping_add(b));
        let want = format!("{} {} {}", t.name, t.entries.len(), ck);
        if text.lines().any(|l| l == want) {
            ok += 1;
        } else {
            rec.note(format!("HARNESS-ERROR: compiled table {} disagrees with the text parser ({})", t.name, want));
        }
    }
    rec.count_n("compiled-with-rustc:tables-agreeing-with-the-text-parser", ok);
    rec.evals(ok);
}

/// the other pinned UnicodeData.txt as "another version": core build on 16.0.0, profiles build on 6.3.0
fn cross_version_case(env: &Env, aliases: &str, rec: &mut Rec) {
    let root: PathBuf = env.out_dir.join(format!("c15-{}-cross", std::process::id()));
    let _ = std::fs::remove_dir_all(&root);
    let d = ucd::data_dir();
    let rd = |p: &str| std::fs::read_to_string(d.join(p)).unwrap_or_default();
    let files = InputFiles {
        unicode_data: rd("ucd16/UnicodeData.txt"),
        prop_list: rd("ucd6/PropList.txt"),
        dcp: rd("ucd6/DerivedCoreProperties.txt"),
        hst: rd("ucd6/HangulSyllableType.txt"),
        scripts: rd("ucd6/Scripts.txt"),
        djt: rd("ucd6/extracted/DerivedJoiningType.txt"),
    };
    let case = format!("seed={};case=cross;input=cross-version", env.seed);
    if write_dir(&root, &files, aliases).is_err() {
        rec.note("HARNESS-ERROR: cannot write UCD directory");
        return;
    }
    rec.nontrivial("core:cross-version(UnicodeData 16.0.0 with 6.3.0 property files)", &"cross-core", || case.clone());
    match run_build(&root, true) {
        Ok(()) => {
            let g = core_truths(&files);
            let _ = check_core_output(&root.join("out"), &g, &case, rec);
        }
        Err(e) => rec.violation("generator-failed-on-well-formed-input", Witness { op: "precis-core/build.rs main()".into(), case: case.clone(), expected: "tables".into(), observed: e }),
    }
    let root2 = root.join("profiles");
    let text = rd("ucd6/UnicodeData.txt");
    let f2 = InputFiles { unicode_data: text.clone(), prop_list: String::new(), dcp: String::new(), hst: String::new(), scripts: String::new(), djt: String::new() };
    if write_dir(&root2, &f2, aliases).is_ok() {
        rec.nontrivial("profiles:cross-version(UnicodeData 6.3.0)", &"cross-profiles", || case.clone());
        match run_build(&root2, false) {
            Ok(()) => {
                let ud = UnicodeData::from_text(&text);
                let _ = check_profiles_output(&root2.join("out"), &ud, &case, rec);
            }
            Err(e) => rec.violation("generator-failed-on-well-formed-input", Witness { op: "precis-profiles/build.rs main()".into(), case, expected: "tables".into(), observed: e }),
        }
    }
    let _ = std::fs::remove_dir_all(&root);
}

fn one_case(env: &Env, id: usize, rng: &mut Rng, base6: &[Entry], base16: &[Entry], aliases: &str, pinned: bool, compile: bool, rec: &mut Rec) {
    let root: PathBuf = env.out_dir.join(format!("c15-{}-{}", std::process::id(), id));
    let _ = std::fs::remove_dir_all(&root);
    let mode = if pinned { 0 } else { 1 + rng.below(2) };
    // ---- core build: UnicodeData + five property files
    let d = ucd::data_dir().join("ucd6");
    let rd = |p: &str| std::fs::read_to_string(d.join(p)).unwrap_or_default();
    let (files, es6) = if pinned {
        (
            InputFiles { unicode_data: rd("UnicodeData.txt"), prop_list: rd("PropList.txt"), dcp: rd("DerivedCoreProperties.txt"), hst: rd("HangulSyllableType.txt"), scripts: rd("Scripts.txt"), djt: rd("extracted/DerivedJoiningType.txt") },
            base6.to_vec(),
        )
    } else {
        let es = if mode == 1 { synth_entries(rng, false) } else { perturb_entries(rng, base6) };
        let pl = [("Join_Control", random_intervals(rng, 0x2FFFF)), ("Noncharacter_Code_Point", random_intervals(rng, 0x2FFFF)), ("White_Space", random_intervals(rng, 0x2FFFF))];
        let dc = [("Default_Ignorable_Code_Point", random_intervals(rng, 0xEFFFF)), ("Alphabetic", random_intervals(rng, 0x2FFFF))];
        let f = InputFiles {
            unicode_data: render_unicode_data(&es),
            prop_list: render_prop_file(&pl, rng),
            dcp: render_prop_file(&dc, rng),
            hst: render_prop_file(&enumerated(rng, &["L", "V", "T", "LV", "LVT"]), rng),
            scripts: render_prop_file(&enumerated(rng, &["Greek", "Hebrew", "Hiragana", "Katakana", "Han", "Latin", "Common"]), rng),
            djt: render_prop_file(&enumerated(rng, &["D", "L", "R", "T", "C"]), rng),
        };
        (f, es)
    };
    let case = format!("seed={};case={};input={}", env.seed, id, if pinned { "pinned" } else if mode == 1 { "synthetic" } else { "perturbed-real" });
    if write_dir(&root, &files, aliases).is_err() {
        rec.note("HARNESS-ERROR: cannot write synthetic UCD directory");
        return;
    }
    let sh = shape_of(&es6);
    let class = format!(
        "core:{}:{}{}{}",
        if pinned { "pinned-6.3.0" } else if mode == 1 { "synthetic" } else { "perturbed-real" },
        if sh.range_next_to_other_value > 0 { "range-adjacent-to-other-value," } else { "" },
        if !sh.first_is_zero { "first-entry-not-U+0000," } else { "" },
        if sh.last_cp < 0x10FFFD { "ends-early" } else { "ends-at-10FFFD" }
    );
    if sh.range_next_to_other_value > 0 || pinned {
        rec.nontrivial(&class, &files.unicode_data, || format!("{} ({} entries, {} ranges, {} adjacent to another value)", case, es6.len(), sh.ranges, sh.range_next_to_other_value));
    } else {
        rec.count(&class);
    }
    let mut core_tables = None;
    match run_build(&root, true) {
        Ok(()) => {
            let g = core_truths(&files);
            core_tables = check_core_output(&root.join("out"), &g, &case, rec);
        }
        Err(_) if es6.iter().any(|e| is_nonchar(e.hi) || is_nonchar(e.lo)) => rec.count("core:generator-rejected-an-input-that-lists-a-noncharacter (allowed)"),
        Err(e) => rec.violation(
            "generator-failed-on-well-formed-input",
            Witness { op: "precis-core/build.rs main()".into(), case: case.clone(), expected: "tables".into(), observed: e },
        ),
    }
    let core_out = root.join("out");
    if compile {
        if let Some(t) = &core_tables {
            let t2: Vec<Table> = t.iter().filter(|t| !t.opaque && t.name != "EXCEPTIONS" && t.name != "BACKWARD_COMPATIBLE").cloned().collect();
            compile_crosscheck(&root, &core_out, &t2, &["context_tables.rs", "precis_tables.rs"], rec, &case);
        }
    }
    // ---- profiles build: UnicodeData only (own directory so that both outputs survive for the cross-check)
    let root2 = root.join("profiles");
    let es16 = if pinned { base16.to_vec() } else if mode == 1 { synth_entries(rng, true) } else { perturb_entries(rng, base16) };
    let ud_text = if pinned { std::fs::read_to_string(ucd::data_dir().join("ucd16/UnicodeData.txt")).unwrap_or_default() } else { render_unicode_data(&es16) };
    let f2 = InputFiles { unicode_data: ud_text.clone(), prop_list: String::new(), dcp: String::new(), hst: String::new(), scripts: String::new(), djt: String::new() };
    if write_dir(&root2, &f2, aliases).is_err() {
        rec.note("HARNESS-ERROR: cannot write synthetic UCD directory");
        return;
    }
    let sh = shape_of(&es16);
    let class = format!(
        "profiles:{}:{}{}",
        if pinned { "pinned-16.0.0" } else if mode == 1 { "synthetic" } else { "perturbed-real" },
        if sh.range_next_to_other_value > 0 { "range-adjacent-to-other-value," } else { "" },
        if sh.range_next_to_same_value > 0 { "range-adjacent-to-same-value" } else { "" }
    );
    if sh.range_next_to_other_value > 0 || sh.range_next_to_same_value > 0 || pinned {
        rec.nontrivial(&class, &ud_text, || format!("{} ({} entries, {} ranges)", case, es16.len(), sh.ranges));
    } else {
        rec.count(&class);
    }
    match run_build(&root2, false) {
        Ok(()) => {
            let ud = UnicodeData::from_text(&ud_text);
            let t = check_profiles_output(&root2.join("out"), &ud, &case, rec);
            if compile && core_tables.is_some() {
                if let Some(t) = t {
                    compile_crosscheck(&root2, &core_out, &t, &["bidi_class.rs", "space_separator.rs", "width_mapping.rs"], rec, &case);
                }
            }
        }
        Err(_) if es16.iter().any(|e| is_nonchar(e.hi) || is_nonchar(e.lo)) => rec.count("profiles:generator-rejected-an-input-that-lists-a-noncharacter (allowed)"),
        Err(e) => rec.violation(
            "generator-failed-on-well-formed-input",
            Witness { op: "precis-profiles/build.rs main()".into(), case: case.clone(), expected: "tables".into(), observed: e },
        ),
    }
    // regenerate IN PLACE: the same directory gets a UnicodeData.txt of exactly the same byte length but other
    // content (bidi L<->R, gc Lu<->Ll, Zs<->So swapped on some entries), and the profiles build runs again in
    // this process: the tables must follow the file, not an earlier parse of it
    if !pinned && id % 3 == 0 && !es16.is_empty() {
        let mut es2 = es16.clone();
        let mut changed = 0;
        for (k, e) in es2.iter_mut().enumerate() {
            if (k + id) % 5 == 0 {
                let nb = match e.bidi.as_str() {
                    "L" => "R",
                    "R" => "L",
                    "AL" => "EN",
                    "EN" => "AN",
                    "AN" => "ES",
                    "ON" => "WS",
                    "NSM" => "LRE",
                    other => other,
                };
                if nb != e.bidi {
                    e.bidi = nb.to_string();
                    changed += 1;
                }
                let ng = match e.gc.as_str() {
                    "Zs" => "So",
                    "So" => "Zs",
                    "Lu" => "Ll",
                    other => other,
                };
                e.gc = ng.to_string();
            }
        }
        let text2 = render_unicode_data(&es2);
        if changed > 0 && text2.len() == ud_text.len() && text2 != ud_text {
            if std::fs::write(root2.join("resources/ucd/UnicodeData.txt"), &text2).is_ok() {
                let case2 = format!("{};regenerated-in-place=1", case);
                rec.nontrivial("profiles:regenerated-in-place-with-same-length-edit", &text2, || format!("{} ({} entries changed)", case2, changed));
                match run_build(&root2, false) {
                    Ok(()) => {
                        let ud = UnicodeData::from_text(&text2);
                        let _ = check_profiles_output(&root2.join("out"), &ud, &case2, rec);
                    }
                    Err(e) => rec.violation(
                        "generator-failed-on-well-formed-input",
                        Witness { op: "precis-profiles/build.rs main() (second run, same directory)".into(), case: case2, expected: "tables".into(), observed: e },
                    ),
                }
            }
        }
    }
    let keep = std::env::var("VERIF_KEEP_C15").is_ok();
    if !keep {
        let _ = std::fs::remove_dir_all(&root);
    }
}

pub fn run(env: &Env) -> Rec {
    let mut rec = Rec::new();
    let _ = std::fs::create_dir_all(&env.out_dir);
    let base6 = entries_of(&UnicodeData::load(&ucd::data_dir().join("ucd6/UnicodeData.txt")));
    let base16 = entries_of(&UnicodeData::load(&ucd::data_dir().join("ucd16/UnicodeData.txt")));
    let aliases = std::fs::read_to_string(ucd::data_dir().join("ucd6/PropertyValueAliases.txt")).unwrap_or_default();
    let (shard, nshards) = env.shard;
    let total = env.n(1200, 30_000);
    let n_compile = env.n(4, 60);
    if shard == 0 {
        let mut rng = Rng::stream(env.seed, 0x15_FFFF);
        one_case(env, usize::MAX - 1, &mut rng, &base6, &base16, &aliases, true, true, &mut rec);
    }
    if shard == 1 % nshards {
        cross_version_case(env, &aliases, &mut rec);
    }
    for id in (0..total).filter(|i| i % nshards == shard) {
        // the case depends only on (seed, id), not on the sharding
        let mut rng = Rng::stream(env.seed, 0x15_0000 + id as u64);
        one_case(env, id, &mut rng, &base6, &base16, &aliases, false, id < n_compile, &mut rec);
    }
    rec
}

pub fn replay(env: &Env, _op: &str, case: &str) -> Rec {
    let mut rec = Rec::new();
    let _ = std::fs::create_dir_all(&env.out_dir);
    let base6 = entries_of(&UnicodeData::load(&ucd::data_dir().join("ucd6/UnicodeData.txt")));
    let base16 = entries_of(&UnicodeData::load(&ucd::data_dir().join("ucd16/UnicodeData.txt")));
    let aliases = std::fs::read_to_string(ucd::data_dir().join("ucd6/PropertyValueAliases.txt")).unwrap_or_default();
    let seed = super::kv_get(case, "seed").and_then(|s| s.parse::<u64>().ok());
    let id = super::kv_get(case, "case").and_then(|s| s.parse::<usize>().ok());
    let pinned = super::kv_get(case, "input") == Some("pinned");
    match (seed, id) {
        (Some(seed), Some(id)) => {
            let mut rng = if pinned { Rng::stream(seed, 0x15_FFFF) } else { Rng::stream(seed, 0x15_0000 + id as u64) };
            let env2 = Env::replay_env(env, seed);
            one_case(&env2, id, &mut rng, &base6, &base16, &aliases, pinned, false, &mut rec);
        }
        _ => rec.note("HARNESS-ERROR: cannot parse replay case"),
    }
    rec
}
