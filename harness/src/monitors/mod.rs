//! One monitor per property: workload + oracle + what was observed.

use crate::util::Rec;
use crate::Env;

pub mod c01;
pub mod hostile;
pub mod c02;
pub mod c03;
pub mod c12;
pub mod c04;
pub mod c05;
pub mod c06;
pub mod c07;
pub mod c08;
pub mod c09;
pub mod pipes;
pub mod c10;
pub mod c11;
pub mod c13;
pub mod c14;
pub mod c15;
pub mod c16;
pub mod c17;
pub mod c18;

pub fn run(prop: &str, env: &Env) -> Option<Rec> {
    Some(match prop {
        "C01" => c01::run(env),
        "C02" => c02::run(env),
        "C03" => c03::run(env),
        "C04" => c04::run(env),
        "C05" => c05::run(env),
        "C06" => c06::run(env),
        "C07" => c07::run(env),
        "C08" => c08::run(env),
        "C09" => c09::run(env),
        "C10" => c10::run(env),
        "C11" => c11::run(env),
        "C12" => c12::run(env),
        "C13" => c13::run(env),
        "C14" => c14::run(env),
        "C15" => c15::run(env),
        "C16" => c16::run(env),
        "C17" => c17::run(env),
        "C18" => c18::run(env),
        _ => return None,
    })
}

pub fn replay(prop: &str, env: &Env, op: &str, case: &str) -> Option<Rec> {
    Some(match prop {
        "C01" => c01::replay(env, op, case),
        "C02" => c02::replay(env, op, case),
        "C03" => c03::replay(env, op, case),
        "C04" => c04::replay(env, op, case),
        "C05" => c05::replay(env, op, case),
        "C06" => c06::replay(env, op, case),
        "C07" => c07::replay(env, op, case),
        "C08" => c08::replay(env, op, case),
        "C09" => c09::replay(env, op, case),
        "C10" => c10::replay(env, op, case),
        "C11" => c11::replay(env, op, case),
        "C12" => c12::replay(env, op, case),
        "C13" => c13::replay(env, op, case),
        "C14" => c14::replay(env, op, case),
        "C15" => c15::replay(env, op, case),
        "C16" => c16::replay(env, op, case),
        "C17" => c17::replay(env, op, case),
        "C18" => c18::replay(env, op, case),
        _ => return None,
    })
}

/// key=value;key=value case encoding helpers
pub fn kv_get<'a>(case: &'a str, key: &str) -> Option<&'a str> {
    for part in case.split(';') {
        if let Some((k, v)) = part.split_once('=') {
            if k == key {
                return Some(v);
            }
        }
    }
    None
}

/// value of the LAST field `key=...` taking everything up to the end of the
/// case string (used for literal labels, which may contain ';' and '=')
pub fn kv_get_last<'a>(case: &'a str, key: &str) -> Option<&'a str> {
    let pat = format!("{}=", key);
    if let Some(rest) = case.strip_prefix(pat.as_str()) {
        return Some(rest);
    }
    let pat2 = format!(";{}=", key);
    case.find(pat2.as_str()).map(|i| &case[i + pat2.len()..])
}

pub fn err_kind(e: &crate::api::E) -> &'static str {
    use crate::api::E;
    match e {
        E::Invalid => "invalid",
        E::Bad(..) => "bad-codepoint",
        E::Undefined => "undefined-context",
        E::Any => "any",
        E::CtxNotApplicable(..) => "context-rule-not-applicable",
        E::MissingRule(..) => "missing-context-rule",
        E::ProfileRuleNotApplicable => "profile-rule-not-applicable",
    }
}
