//! One monitor per property: workload + oracle + what was observed.

use crate::util::Rec;
use crate::Env;

pub mod c13;
pub mod c14;
pub mod c18;

pub fn run(prop: &str, env: &Env) -> Option<Rec> {
    Some(match prop {
        "C13" => c13::run(env),
        "C14" => c14::run(env),
        "C18" => c18::run(env),
        _ => return None,
    })
}

pub fn replay(prop: &str, env: &Env, op: &str, case: &str) -> Option<Rec> {
    Some(match prop {
        "C13" => c13::replay(env, op, case),
        "C14" => c14::replay(env, op, case),
        "C18" => c18::replay(env, op, case),
        _ => return None,
    })
}

/// key=value;key=value case encoding helpers
pub fn kv_get<'a>(case: &'a str, key: &str) -> Option<&'a str> {
    for part in case.split(';') {
        if let Some((k, v)) = part.split_once('=') {
            if k == key {
                return Some(v);
            }
        }
    }
    None
}
