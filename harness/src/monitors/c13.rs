//! C13 - stabilize returns only fixed points and honours its iteration contract

use crate::api::{self, Dp, Out, E, R};
use crate::refmodel;
use crate::util::{par, Rec, Witness};
use crate::Env;
use precis_core::{CodepointInfo, Error};
use std::borrow::Cow;
use std::cell::RefCell;

const COLLISIONS: [(&str, &str); 17] = [
    ("costarring", "liquid"),
    ("declinate", "macallums"),
    ("altarage", "zinke"),
    ("altarages", "zinkes"),
    ("creamwove", "quists"),
    ("Aa", "BB"),
    ("AaAa", "BBBB"),
    ("AaBB", "BBAa"),
    ("hetairas", "mentioner"),
    ("heliotropes", "neurospora"),
    ("depravement", "serafins"),
    ("stylist", "subgenera"),
    ("joyful", "synaphea"),
    ("redescribed", "urites"),
    ("dram", "vivency"),
    ("plumless", "buckeroo"),
    ("codding", "gnu"),
];

thread_local! {
    static SCHEME: std::cell::Cell<u8> = const { std::cell::Cell::new(0) };
}

/// value of a state function: next state index, or fail
const FAIL: usize = usize::MAX;

/// 'static state names: lets the rule function hand back a *borrowed* string
/// that differs from its argument (a rule may return a static replacement or a
/// sub-slice of its input; the signature allows it)
const STATIC_ASCII: [&str; 10] = ["s0", "s1", "s2", "s3", "s4", "s5", "s6", "s7", "s8", "s9"];
const STATIC_MB: [&str; 10] = [
    "\u{E9}",
    "\u{E9}\u{1F600}",
    "\u{E9}\u{1F600}\u{1F600}",
    "\u{E9}\u{1F600}\u{1F600}\u{1F600}",
    "\u{E9}\u{1F600}\u{1F600}\u{1F600}\u{1F600}",
    "\u{E9}\u{1F600}\u{1F600}\u{1F600}\u{1F600}\u{1F600}",
    "\u{E9}\u{1F600}\u{1F600}\u{1F600}\u{1F600}\u{1F600}\u{1F600}",
    "\u{E9}\u{1F600}\u{1F600}\u{1F600}\u{1F600}\u{1F600}\u{1F600}\u{1F600}",
    "\u{E9}\u{1F600}\u{1F600}\u{1F600}\u{1F600}\u{1F600}\u{1F600}\u{1F600}\u{1F600}",
    "\u{E9}\u{1F600}\u{1F600}\u{1F600}\u{1F600}\u{1F600}\u{1F600}\u{1F600}\u{1F600}\u{1F600}",
];

fn state_name(i: usize, multibyte: bool) -> String {
    // naming scheme selected per thread: 0 = short (default), 1 = long names that share a 70-byte prefix and
    // have equal length, 2 = long names where each state is a strict prefix of the next
    match SCHEME.with(|s| s.get()) {
        1 => return format!("{}{}{}", "x".repeat(70), if multibyte { "\u{E9}\u{1F600}" } else { "" }, (b'a' + i as u8) as char),
        2 => return format!("{}{}", "pre\u{FB01}x-".repeat(6), "\u{6F22}".repeat(i + multibyte as usize)),
        3 => {
            // nested: every later state is a strictly interior slice of every earlier one
            let k = 9usize.saturating_sub(i);
            return format!("{}{}core{}", "[\u{E9}".repeat(k), if multibyte { "\u{1F600}" } else { "" }, "\u{6F22}]".repeat(k));
        }
        4 => {
            // state 0 is the empty string
            return if i == 0 { String::new() } else { format!("{}{}", if multibyte { "\u{E9}" } else { "e" }, i) };
        }
        5 => {
            // every later state is a proper suffix of every earlier one (a rule that strips a prefix)
            let k = 9usize.saturating_sub(i);
            return format!("{}{}tail", ".\u{E9}".repeat(k), if multibyte { "\u{1F600}" } else { "" });
        }
        6 => {
            // growth: one application multiplies the number of code points by exactly 18 (NFKC's worst case,
            // U+FDFA), by 19, by 324 ... and shrinks by the same factors the other way
            let n = [1usize, 18, 324, 5832, 19, 342, 2, 36, 17, 306][i % 10];
            return if multibyte { "\u{FDFA}".repeat(n) } else { "y".repeat(n) };
        }
        s if s >= 10 => {
            // well-known colliding pairs of common 32-bit string hashes (FNV-1a, FNV-1, x31, DJB2, CRC-32):
            // a 'hash instead of compare' shortcut is only observable on colliding strings
            let (x, y) = COLLISIONS[(s - 10) as usize % COLLISIONS.len()];
            return match i {
                0 => x.to_string(),
                1 => y.to_string(),
                _ => format!("{}{}", x, i),
            };
        }
        _ => {}
    }
    if multibyte {
        // multi-byte state strings of different lengths
        let mut s = String::from("\u{E9}");
        for _ in 0..i {
            s.push('\u{1F600}');
        }
        s
    } else {
        format!("s{}", i)
    }
}

fn state_error(i: usize) -> E {
    E::Bad(0x1000 + i as u32, i, Dp::Disallowed)
}
fn lib_error(i: usize) -> Error {
    Error::BadCodepoint(CodepointInfo::new(0x1000 + i as u32, i, precis_core::DerivedPropertyValue::Disallowed))
}

/// run the real stabilize on the function table `f` from state `start`
/// `borrow_unchanged`: return Cow::Borrowed when f(x)=x (what real rules do) or an owned copy
fn run_one(f: &[usize], start: usize, multibyte: bool, borrow_unchanged: bool, rec: &mut Rec) {
    run_mode(f, start, multibyte, borrow_unchanged as u8, rec)
}

/// mode 0: every result owned; 1: borrowed (of the argument) only when unchanged;
/// 2: every result a borrowed 'static string, changed or not; 3: borrowed sub-slice of the
/// argument whenever the next state's name is a prefix of the current one, else owned
fn run_mode(f: &[usize], start: usize, multibyte: bool, mode: u8, rec: &mut Rec) {
    let borrow_unchanged = mode == 1;
    let names: Vec<String> = (0..f.len()).map(|i| state_name(i, multibyte)).collect();
    let idx = |s: &str| names.iter().position(|n| n == s);
    let log: RefCell<Vec<(String, Result<String, usize>)>> = RefCell::new(Vec::new());
    let got: R = api::stabilize(&names[start], |s: &str| {
        let i = idx(s);
        let r = match i {
            None => Err(FAIL - 1),
            Some(i) if f[i] == FAIL => Err(i),
            Some(i) => Ok(names[f[i]].clone()),
        };
        log.borrow_mut().push((s.to_string(), r.clone()));
        match r {
            Err(i) => Err(lib_error(i)),
            Ok(n) => {
                if mode == 2 && f.len() <= 10 && SCHEME.with(|s| s.get()) == 0 {
                    let t = if multibyte { &STATIC_MB } else { &STATIC_ASCII };
                    Ok(Cow::Borrowed(t[f[i.unwrap()]]))
                } else if mode == 3 && s.starts_with(n.as_str()) {
                    Ok(Cow::Borrowed(&s[..n.len()]))
                } else if mode == 3 && s.contains(n.as_str()) {
                    // a strictly interior (or suffix) slice of the argument
                    let a = s.find(n.as_str()).unwrap();
                    Ok(Cow::Borrowed(&s[a..a + n.len()]))
                } else if n == s && borrow_unchanged {
                    Ok(Cow::Borrowed(s))
                } else {
                    Ok(Cow::Owned(n))
                }
            }
        }
    });
    rec.eval();
    // the contract, simulated
    let mut model_calls: Vec<String> = Vec::new();
    let (want, n_apps) = refmodel::stabilize_model(&names[start], |s| {
        model_calls.push(s.to_string());
        match idx(s) {
            Some(i) if f[i] == FAIL => Err(state_error(i)),
            Some(i) => Ok(names[f[i]].clone()),
            None => Err(state_error(FAIL - 1)),
        }
    });
    let log = log.into_inner();
    let case = || {
        format!(
            "scheme={};f={};start={};mb={};mode={}",
            SCHEME.with(|s| s.get()),
            f.iter().map(|x| if *x == FAIL { "F".to_string() } else { x.to_string() }).collect::<Vec<_>>().join(","),
            start,
            multibyte as u8,
            mode
        )
    };
    let class = match &want {
        Out::Ok(_) => format!("accept-after-{}-applications", n_apps),
        Out::Err(E::Invalid) => "reject-still-changing-after-4".to_string(),
        Out::Err(_) => format!("reject-f-error-at-application-{}", n_apps),
        Out::Panic(_) => unreachable!(),
    };
    if n_apps >= 2 {
        rec.nontrivial(&class, &(f.to_vec(), start, multibyte, mode, SCHEME.with(|s| s.get())), case);
    } else {
        rec.count(&class);
    }
    if got != want {
        rec.violation(
            "stabilize-result-differs-from-contract",
            Witness { op: "stabilize".into(), case: case(), expected: api::show_r(&want), observed: api::show_r(&got) },
        );
        return;
    }
    let args: Vec<String> = log.iter().map(|l| l.0.clone()).collect();
    if args.len() > 4 {
        rec.violation(
            "stabilize-applies-f-more-than-four-times",
            Witness { op: "stabilize".into(), case: case(), expected: "<= 4 calls".into(), observed: format!("{} calls", args.len()) },
        );
    } else if args != model_calls {
        rec.violation(
            "stabilize-call-sequence-differs-from-orbit",
            Witness {
                op: "stabilize".into(),
                case: case(),
                expected: format!("{:?}", model_calls),
                observed: format!("{:?}", args),
            },
        );
    }
    if let Out::Ok(x) = &got {
        // fixed point and reachable
        let fx = idx(x).map(|i| f[i]);
        let reachable = {
            let mut cur = start;
            let mut seen = vec![cur];
            for _ in 0..8 {
                if f[cur] == FAIL {
                    break;
                }
                cur = f[cur];
                seen.push(cur);
            }
            idx(x).map(|i| seen.contains(&i)).unwrap_or(false)
        };
        if fx != idx(x) || !reachable {
            rec.violation(
                "stabilize-returned-a-non-fixed-point",
                Witness { op: "stabilize".into(), case: case(), expected: "f(x)=x, x reachable".into(), observed: api::show_r(&got) },
            );
        }
    }
}

fn nth_function(n: usize, mut k: usize) -> Vec<usize> {
    // each state maps to one of n states or FAIL: (n+1)^n functions
    let mut f = Vec::with_capacity(n);
    for _ in 0..n {
        let v = k % (n + 1);
        k /= n + 1;
        f.push(if v == n { FAIL } else { v });
    }
    f
}

pub fn run(env: &Env) -> Rec {
    let mut rec = Rec::new();
    let max_n = if env.quick() { 6 } else { 7 };
    for n in 1..=max_n as usize {
        let total = (n as usize + 1).pow(n as u32);
        let per = 2000usize;
        let r = par(total.div_ceil(per), |c, rec| {
            for k in c * per..((c + 1) * per).min(total) {
                let f = nth_function(n, k);
                for start in 0..n {
                    // rotate the representation details deterministically so that all are covered:
                    // single/multi-byte state strings x {owned, borrowed-if-unchanged, borrowed 'static,
                    // borrowed sub-slice of the argument}
                    run_mode(&f, start, (k + start) % 2 == 0, ((k / 2 + start) % 4) as u8, rec);
                    if n <= 4 {
                        for mode in 0..4u8 {
                            run_mode(&f, start, mode % 2 == 1, mode, rec);
                            run_mode(&f, start, mode % 2 == 0, mode, rec);
                        }
                    }
                }
            }
        });
        rec.merge(r);
    }
    rec.exhaustive(format!("all total-or-failing functions on n<={} states x every start state", max_n));
    // the same function spaces (n <= 4 / 5) with long state strings: equal length + 70-byte common prefix, and
    // each state a strict prefix of the next (content- or length-based shortcuts instead of a full comparison)
    for scheme in (1u8..=6).chain(10..10 + COLLISIONS.len() as u8) {
        let top = if scheme >= 10 { 3 } else if env.quick() { 4 } else { 5 };
        for n in 1..=top as usize {
            let total = (n + 1).pow(n as u32);
            let r = par(total.div_ceil(500), |c, rec| {
                SCHEME.with(|s| s.set(scheme));
                for k in c * 500..((c + 1) * 500).min(total) {
                    let f = nth_function(n, k);
                    for start in 0..n {
                        for mode in [0u8, 1, 3] {
                            run_mode(&f, start, (k + start) % 2 == 0, mode, rec);
                        }
                    }
                }
                SCHEME.with(|s| s.set(0));
            });
            rec.merge(r);
        }
    }
    rec.exhaustive("the same for n<=4 (quick) / 5 (thorough) with long state strings (70-byte common prefix and equal length; strict prefixes; nested interior slices; the empty string as a state; proper suffixes; names whose code point counts differ by factors of exactly 17, 18, 19 and 324) and for n<=3 with 17 well-known colliding string pairs of common 32-bit hashes as state names");
    // long chains / cycles beyond the exhaustive state bound
    for k in 0..=8usize {
        // converge after exactly k changes: 0 -> 1 -> ... -> k -> k
        let n = k + 1;
        let mut f: Vec<usize> = (1..=n).collect();
        f[n - 1] = n - 1;
        for mb in [false, true] {
            for bo in [false, true] {
                run_one(&f, 0, mb, bo, &mut rec);
            }
        }
        // fail at application k+1
        let mut g: Vec<usize> = (1..=n).collect();
        g[n - 1] = FAIL;
        for mb in [false, true] {
            run_one(&g, 0, mb, true, &mut rec);
        }
    }
    for p in 2..=7usize {
        let f: Vec<usize> = (0..p).map(|i| (i + 1) % p).collect();
        for s in 0..p {
            run_one(&f, s, s % 2 == 0, true, &mut rec);
        }
        // tail of length t into a cycle of period p
        for t in 1..=3usize {
            let n = t + p;
            let mut f: Vec<usize> = (1..=n).collect();
            f[n - 1] = t;
            run_one(&f, 0, false, false, &mut rec);
        }
    }
    rec
}

pub fn replay(_env: &Env, _op: &str, case: &str) -> Rec {
    let mut rec = Rec::new();
    let f: Option<Vec<usize>> = super::kv_get(case, "f").map(|s| {
        s.split(',').map(|x| if x == "F" { FAIL } else { x.parse().unwrap_or(0) }).collect()
    });
    let start = super::kv_get(case, "start").and_then(|s| s.parse().ok());
    SCHEME.with(|s| s.set(super::kv_get(case, "scheme").and_then(|x| x.parse().ok()).unwrap_or(0)));
    match (f, start) {
        (Some(f), Some(start)) if start < f.len() && f.iter().all(|x| *x == FAIL || *x < f.len()) => run_mode_replay(
            &f,
            start,
            super::kv_get(case, "mode").or(super::kv_get(case, "borrow")).and_then(|m| m.parse().ok()).unwrap_or(1),
            super::kv_get(case, "mb") == Some("1"),
            &mut rec,
        ),
        _ => rec.note("HARNESS-ERROR: cannot parse replay case"),
    }
    rec
}

fn run_mode_replay(f: &[usize], start: usize, mode: u8, multibyte: bool, rec: &mut Rec) {
    run_mode(f, start, multibyte, mode, rec)
}
