//! C14 - derived property of every code point (RFC 8264 section 8 over 6.3.0)

use crate::api::{self, Class, Dp, Out};
use crate::refmodel::{self, Abs, Step};
use crate::ucd::{self, NCP};
use crate::util::{par, Rec, Rng, Witness};
use crate::Env;

fn check_cp(env: &Env, csv: Option<&[Abs]>, cp: u32, rec: &mut Rec) {
    let d6 = env.d6();
    let (abs, step) = refmodel::derived(d6, cp);
    let mut vals = [None, None];
    for (ci, class) in api::ALL_CLASS.iter().enumerate() {
        let lib = api::class_value_cp(*class, cp);
        rec.eval();
        let want = match class {
            Class::Identifier => abs.identifier(),
            Class::Freeform => abs.freeform(),
        };
        let ok = if step == Step::NotACodePoint {
            // never valid: DISALLOWED or UNASSIGNED
            matches!(lib, Out::Ok(Dp::Disallowed) | Out::Ok(Dp::Unassigned))
        } else {
            lib == Out::Ok(want)
        };
        if !ok {
            rec.violation(
                "derived-property-differs-from-rfc8264-recomputation",
                Witness {
                    op: format!("{:?}.get_value_from_codepoint", class),
                    case: format!("cp={:X}", cp),
                    expected: if step == Step::NotACodePoint {
                        "Disallowed or Unassigned (not a code point)".into()
                    } else {
                        format!("{:?} (decided by {:?})", want, step)
                    },
                    observed: api::show(&lib),
                },
            );
        }
        if let Some(t) = csv {
            if (cp as usize) < NCP {
                let a = t[cp as usize];
                let w = if *class == Class::Identifier { a.identifier() } else { a.freeform() };
                if lib != Out::Ok(w) {
                    rec.violation(
                        "derived-property-differs-from-iana-registry",
                        Witness {
                            op: format!("{:?}.get_value_from_codepoint", class),
                            case: format!("cp={:X}", cp),
                            expected: format!("{:?} (IANA precis-tables-6.3.0)", w),
                            observed: api::show(&lib),
                        },
                    );
                }
                if a != abs {
                    rec.violation(
                        "ORACLE-DISAGREEMENT registry vs recomputation",
                        Witness {
                            op: "oracles".into(),
                            case: format!("cp={:X}", cp),
                            expected: format!("registry {:?}", a),
                            observed: format!("recomputed {:?} by {:?}", abs, step),
                        },
                    );
                }
            }
        }
        // char entry point agrees with the code point entry point
        if let Some(ch) = char::from_u32(cp) {
            let l2 = api::class_value_char(*class, ch);
            rec.eval();
            if l2 != lib {
                rec.violation(
                    "char-and-codepoint-entry-points-differ",
                    Witness {
                        op: format!("{:?}.get_value_from_char", class),
                        case: format!("cp={:X}", cp),
                        expected: api::show(&lib),
                        observed: api::show(&l2),
                    },
                );
            }
        }
        vals[ci] = lib.ok().copied();
    }
    // relation between the two classes
    if let (Some(i), Some(f)) = (vals[0], vals[1]) {
        let rel_ok = match (i, f) {
            (Dp::SpecClassDis, Dp::SpecClassPval) => true,
            (a, b) if a == b => !matches!(a, Dp::SpecClassDis | Dp::SpecClassPval),
            _ => false,
        };
        if !rel_ok {
            rec.violation(
                "identifier-freeform-relation",
                Witness {
                    op: "IdentifierClass vs FreeformClass".into(),
                    case: format!("cp={:X}", cp),
                    expected: "equal, or SpecClassDis vs SpecClassPval".into(),
                    observed: format!("{:?} vs {:?}", i, f),
                },
            );
        }
    }
    let class = format!("step:{:?}", step);
    if !matches!(step, Step::Default | Step::Unassigned | Step::NotACodePoint) {
        rec.nontrivial(&class, &cp, || format!("U+{:04X} -> {:?} by {:?}", cp, abs, step));
    } else {
        rec.count(&class);
    }
}

pub fn run(env: &Env) -> Rec {
    let rows = ucd::parse_csv(&ucd::csv_path());
    let csv = match refmodel::csv_table(&rows) {
        Ok(t) => t,
        Err(e) => {
            let mut r = Rec::new();
            r.note(format!("HARNESS-ERROR: registry snapshot incomplete: {}", e));
            return r;
        }
    };
    let chunk = 0x800usize;
    let n_chunks = NCP / chunk;
    let mut rec = par(n_chunks, |i, rec| {
        for cp in (i * chunk) as u32..((i + 1) * chunk) as u32 {
            check_cp(env, Some(&csv), cp, rec);
        }
    });
    rec.exhaustive("all 1,114,112 code points 0..=0x10FFFF x 2 classes x 2 entry points, vs IANA registry and vs independent recomputation");
    // the same table in other lookup orders: descending, and random jumps with the neighbours c-1 / c+1 looked
    // up right before (a cache of the last range or result, shared between classes or entry points, shows here)
    let quick_val = |class: Class, cp: u32, rec: &mut Rec, how: &str| {
        let lib = api::class_value_cp(class, cp);
        rec.eval();
        let a = csv[cp as usize];
        let w = if class == Class::Identifier { a.identifier() } else { a.freeform() };
        if lib != Out::Ok(w) {
            rec.violation(
                "derived-property-depends-on-lookup-order",
                Witness { op: format!("{:?}.get_value_from_codepoint ({})", class, how), case: format!("cp={:X}", cp), expected: format!("{:?}", w), observed: api::show(&lib) },
            );
        }
    };
    let rdesc = par(n_chunks, |i, rec| {
        for cp in ((i * chunk) as u32..((i + 1) * chunk) as u32).rev() {
            quick_val(Class::Freeform, cp, rec, "descending");
            if let Some(ch) = char::from_u32(cp) {
                let l = api::class_value_char(Class::Identifier, ch);
                rec.eval();
                if l != Out::Ok(csv[cp as usize].identifier()) {
                    rec.violation(
                        "derived-property-depends-on-lookup-order",
                        Witness { op: "Identifier.get_value_from_char (descending, after Freeform code point lookup)".into(), case: format!("cp={:X}", cp), expected: format!("{:?}", csv[cp as usize].identifier()), observed: api::show(&l) },
                    );
                }
            }
        }
    });
    rec.merge(rdesc);
    // aliases: right after cp, the values that agree with it modulo 2^21 / 2^24 / 2^28 / 2^31 (all above
    // U+10FFFF, never valid), then cp again (a memo with a truncated key shows here)
    let ralias = par(n_chunks, |i, rec| {
        for cp in ((i * chunk) as u32..((i + 1) * chunk) as u32).filter(|c| c % 3 == (env.seed % 3) as u32 || *c < 0x3000) {
            for class in api::ALL_CLASS {
                quick_val(class, cp, rec, "before alias");
                for sh in [21u32, 24, 28, 31] {
                    let a = cp | (1u32 << sh) | if sh < 31 { (cp & 1) << (sh + 1) } else { 0 };
                    let lib = api::class_value_cp(class, a);
                    rec.eval();
                    if a as usize >= NCP && !matches!(lib, Out::Ok(Dp::Disallowed) | Out::Ok(Dp::Unassigned)) {
                        rec.violation(
                            "derived-property-depends-on-lookup-order",
                            Witness { op: format!("{:?}.get_value_from_codepoint right after its alias U+{:04X}", class, cp), case: format!("cp={:X}", a), expected: "Disallowed or Unassigned (not a code point)".into(), observed: api::show(&lib) },
                        );
                    }
                    quick_val(class, cp, rec, "after alias");
                }
            }
        }
    });
    rec.merge(ralias);
    // concurrent hammer: all threads resolve the same few code points, whose answers alternate, at the same time
    let hammer: Vec<u32> = vec![0xAA, 0x3B1, 0xB5, 0x61, 0x2163, 0x4E00, 0xFF21, 0x20, 0xBA, 0xE9, 0x1F600, 0x378, 0x200D, 0xA0, 0x41, 0x13A0];
    let rounds = env.n(150_000, 3_000_000);
    let rh = par(crate::util::n_threads().max(8), |t, rec| {
        let mut k = t;
        for _ in 0..rounds {
            k = (k * 7 + 3) % hammer.len();
            let cp = hammer[k];
            let class = if k % 2 == 0 { Class::Identifier } else { Class::Freeform };
            let lib = api::class_value_cp(class, cp);
            let a = csv[cp as usize];
            let w = if class == Class::Identifier { a.identifier() } else { a.freeform() };
            if lib != Out::Ok(w) {
                rec.violation(
                    "derived-property-depends-on-concurrent-callers",
                    Witness { op: format!("{:?}.get_value_from_codepoint from {} threads at once", class, crate::util::n_threads()), case: format!("cp={:X}", cp), expected: format!("{:?}", w), observed: api::show(&lib) },
                );
            }
        }
        rec.evals(rounds as u64);
        rec.nontrivial("concurrent-hammer-thread", &("hammer", t), || format!("thread {} x {} lookups over {} code points", t, rounds, hammer.len()));
    });
    rec.merge(rh);
    let n_jump = env.n(3_000_000, 100_000_000);
    let rj = par(n_jump / 50_000, |i, rec| {
        let mut rng = Rng::stream(env.seed, 0x14_8000 + i as u64);
        for _ in 0..50_000 {
            let cp = rng.below(NCP) as u32;
            let nb = match rng.below(4) {
                0 => cp.saturating_sub(1),
                1 => (cp + 1).min(NCP as u32 - 1),
                2 => cp ^ 0x10000,
                _ => rng.below(NCP) as u32,
            } % NCP as u32;
            let (c1, c2) = if rng.chance(1, 2) { (Class::Identifier, Class::Freeform) } else { (Class::Freeform, Class::Identifier) };
            quick_val(c1, nb, rec, "random jump, neighbour first");
            quick_val(c2, cp, rec, "random jump");
            quick_val(c1, cp, rec, "random jump, other class");
        }
    });
    rec.merge(rj);
    // above the code space: boundaries + random
    let mut bounds: Vec<u32> = vec![0x110000, 0x110001, 0x1FFFFF, 0x200000, 0x7FFFFFFF, 0x80000000, 0xFFFFFFFE, 0xFFFFFFFF];
    for sh in 21..32 {
        bounds.push(1u32 << sh);
        bounds.push((1u32 << sh) - 1);
        bounds.push((1u32 << sh) + 1);
    }
    for cp in bounds {
        check_cp(env, None, cp, &mut rec);
    }
    let n_rand = env.n(10_000_000, 400_000_000);
    let per = 50_000usize;
    let r2 = par(n_rand / per, |i, rec| {
        let mut rng = Rng::stream(env.seed, 0x14_0000 + i as u64);
        for _ in 0..per {
            let cp = 0x110000u32 + (rng.next() % (u32::MAX as u64 - 0x110000 + 1)) as u32;
            check_cp(env, None, cp, rec);
        }
    });
    rec.merge(r2);
    rec
}

pub fn replay(env: &Env, _op: &str, case: &str) -> Rec {
    let mut rec = Rec::new();
    let rows = ucd::parse_csv(&ucd::csv_path());
    let csv = refmodel::csv_table(&rows).ok();
    match super::kv_get(case, "cp").and_then(|s| u32::from_str_radix(s, 16).ok()) {
        Some(cp) => check_cp(env, csv.as_deref(), cp, &mut rec),
        None => rec.note("HARNESS-ERROR: cannot parse replay case"),
    }
    rec
}
