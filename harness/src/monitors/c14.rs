//! C14 - derived property of every code point (RFC 8264 section 8 over 6.3.0)

use crate::api::{self, Class, Dp, Out};
use crate::refmodel::{self, Abs, Step};
use crate::ucd::{self, NCP};
use crate::util::{par, Rec, Rng, Witness};
use crate::Env;

fn check_cp(env: &Env, csv: Option<&[Abs]>, cp: u32, rec: &mut Rec) {
    let d6 = env.d6();
    let (abs, step) = refmodel::derived(d6, cp);
    let mut vals = [None, None];
    for (ci, class) in api::ALL_CLASS.iter().enumerate() {
        let lib = api::class_value_cp(*class, cp);
        rec.eval();
        let want = match class {
            Class::Identifier => abs.identifier(),
            Class::Freeform => abs.freeform(),
        };
        let ok = if step == Step::NotACodePoint {
            // never valid: DISALLOWED or UNASSIGNED
            matches!(lib, Out::Ok(Dp::Disallowed) | Out::Ok(Dp::Unassigned))
        } else {
            lib == Out::Ok(want)
        };
        if !ok {
            rec.violation(
                "derived-property-differs-from-rfc8264-recomputation",
                Witness {
                    op: format!("{:?}.get_value_from_codepoint", class),
                    case: format!("cp={:X}", cp),
                    expected: if step == Step::NotACodePoint {
                        "Disallowed or Unassigned (not a code point)".into()
                    } else {
                        format!("{:?} (decided by {:?})", want, step)
                    },
                    observed: api::show(&lib),
                },
            );
        }
        if let Some(t) = csv {
            if (cp as usize) < NCP {
                let a = t[cp as usize];
                let w = if *class == Class::Identifier { a.identifier() } else { a.freeform() };
                if lib != Out::Ok(w) {
                    rec.violation(
                        "derived-property-differs-from-iana-registry",
                        Witness {
                            op: format!("{:?}.get_value_from_codepoint", class),
                            case: format!("cp={:X}", cp),
                            expected: format!("{:?} (IANA precis-tables-6.3.0)", w),
                            observed: api::show(&lib),
                        },
                    );
                }
                if a != abs {
                    rec.violation(
                        "ORACLE-DISAGREEMENT registry vs recomputation",
                        Witness {
                            op: "oracles".into(),
                            case: format!("cp={:X}", cp),
                            expected: format!("registry {:?}", a),
                            observed: format!("recomputed {:?} by {:?}", abs, step),
                        },
                    );
                }
            }
        }
        // char entry point agrees with the code point entry point
        if let Some(ch) = char::from_u32(cp) {
            let l2 = api::class_value_char(*class, ch);
            rec.eval();
            if l2 != lib {
                rec.violation(
                    "char-and-codepoint-entry-points-differ",
                    Witness {
                        op: format!("{:?}.get_value_from_char", class),
                        case: format!("cp={:X}", cp),
                        expected: api::show(&lib),
                        observed: api::show(&l2),
                    },
                );
            }
        }
        vals[ci] = lib.ok().copied();
    }
    // relation between the two classes
    if let (Some(i), Some(f)) = (vals[0], vals[1]) {
        let rel_ok = match (i, f) {
            (Dp::SpecClassDis, Dp::SpecClassPval) => true,
            (a, b) if a == b => !matches!(a, Dp::SpecClassDis | Dp::SpecClassPval),
            _ => false,
        };
        if !rel_ok {
            rec.violation(
                "identifier-freeform-relation",
                Witness {
                    op: "IdentifierClass vs FreeformClass".into(),
                    case: format!("cp={:X}", cp),
                    expected: "equal, or SpecClassDis vs SpecClassPval".into(),
                    observed: format!("{:?} vs {:?}", i, f),
                },
            );
        }
    }
    let class = format!("step:{:?}", step);
    if !matches!(step, Step::Default | Step::Unassigned | Step::NotACodePoint) {
        rec.nontrivial(&class, &cp, || format!("U+{:04X} -> {:?} by {:?}", cp, abs, step));
    } else {
        rec.count(&class);
    }
}

pub fn run(env: &Env) -> Rec {
    let rows = ucd::parse_csv(&ucd::csv_path());
    let csv = match refmodel::csv_table(&rows) {
        Ok(t) => t,
        Err(e) => {
            let mut r = Rec::new();
            r.note(format!("HARNESS-ERROR: registry snapshot incomplete: {}", e));
            return r;
        }
    };
    let chunk = 0x800usize;
    let n_chunks = NCP / chunk;
    let mut rec = par(n_chunks, |i, rec| {
        for cp in (i * chunk) as u32..((i + 1) * chunk) as u32 {
            check_cp(env, Some(&csv), cp, rec);
        }
    });
    rec.exhaustive("all 1,114,112 code points 0..=0x10FFFF x 2 classes x 2 entry points, vs IANA registry and vs independent recomputation");
    // above the code space: boundaries + random
    let mut bounds: Vec<u32> = vec![0x110000, 0x110001, 0x1FFFFF, 0x200000, 0x7FFFFFFF, 0x80000000, 0xFFFFFFFE, 0xFFFFFFFF];
    for sh in 21..32 {
        bounds.push(1u32 << sh);
        bounds.push((1u32 << sh) - 1);
        bounds.push((1u32 << sh) + 1);
    }
    for cp in bounds {
        check_cp(env, None, cp, &mut rec);
    }
    let n_rand = env.n(10_000_000, 400_000_000);
    let per = 50_000usize;
    let r2 = par(n_rand / per, |i, rec| {
        let mut rng = Rng::stream(env.seed, 0x14_0000 + i as u64);
        for _ in 0..per {
            let cp = 0x110000u32 + (rng.next() % (u32::MAX as u64 - 0x110000 + 1)) as u32;
            check_cp(env, None, cp, rec);
        }
    });
    rec.merge(r2);
    rec
}

pub fn replay(env: &Env, _op: &str, case: &str) -> Rec {
    let mut rec = Rec::new();
    let rows = ucd::parse_csv(&ucd::csv_path());
    let csv = refmodel::csv_table(&rows).ok();
    match super::kv_get(case, "cp").and_then(|s| u32::from_str_radix(s, 16).ok()) {
        Some(cp) => check_cp(env, csv.as_deref(), cp, &mut rec),
        None => rec.note("HARNESS-ERROR: cannot parse replay case"),
    }
    rec
}
