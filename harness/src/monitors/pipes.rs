//! Reference pipelines of the four profiles (RFC 8265 / 8266), built from the
//! per-step reference functions. Results are *sets* of acceptable outcomes:
//! the string-class step may allow two error values at a label edge (C02).

use crate::api::{self, Class, Dp, Out, Prof, RuleK, E, R};
use crate::refmodel::{self, Abs};
use crate::Env;

/// Err(list of acceptable errors) or Ok
pub fn allows_ref(env: &Env, class: Class, s: &str) -> Result<(), Vec<E>> {
    let abs = &env.pools().abs;
    let value = |c: char| -> Dp {
        let a: Abs = abs[c as usize];
        match class {
            Class::Identifier => a.identifier(),
            Class::Freeform => a.freeform(),
        }
    };
    let v = refmodel::allows(env.d6(), value, s);
    if v[0] == Out::Ok(()) {
        Ok(())
    } else {
        Err(v.into_iter()
            .filter_map(|o| match o {
                Out::Err(e) => Some(e),
                _ => None,
            })
            .collect())
    }
}

fn errs(v: Vec<E>) -> Vec<R> {
    v.into_iter().map(Out::Err).collect()
}

/// steps that changed the string on the way (for the evidence histogram)
#[derive(Default, Clone, Copy, Debug)]
pub struct Trace {
    pub width: bool,
    pub case: bool,
    pub norm: bool,
    pub spaces: bool,
    pub rtl: bool,
    pub rounds: usize,
}

pub fn username_prepare(env: &Env, s: &str, tr: &mut Trace) -> Result<String, Vec<E>> {
    let w = refmodel::width(env.d16(), s);
    tr.width = w != s;
    if w.is_empty() {
        return Err(vec![E::Invalid]);
    }
    allows_ref(env, Class::Identifier, &w)?;
    Ok(w)
}

pub fn username_enforce(env: &Env, p: Prof, s: &str, tr: &mut Trace) -> Vec<R> {
    let w = match username_prepare(env, s, tr) {
        Ok(w) => w,
        Err(e) => return errs(e),
    };
    let l = if p == Prof::Ucm { refmodel::lower(&w) } else { w.clone() };
    tr.case = l != w;
    let n = refmodel::nfc(&l);
    tr.norm = n != l;
    if n.is_empty() {
        return vec![Out::Err(E::Invalid)];
    }
    // directionality: owned by C09, which has an open known finding (F4), so the
    // library's own step is applied to the reference intermediate here
    tr.rtl = n.chars().any(|c| {
        let d16 = env.d16();
        d16.ud.assigned.has(c as u32) && matches!(d16.bidi(c), crate::ucd::B_R | crate::ucd::B_AL | crate::ucd::B_AN)
    });
    // Reference verdict of RFC 5893 wherever it does not meet the open known finding: a label that the RFC
    // accepts and that has an NSM followed by a non-NSM (F4) is left to the library's own step; so is a label
    // with a code point that is not assigned in 16.0.0 (no class to go by).
    let d16 = env.d16();
    if n.chars().all(|c| d16.ud.assigned.has(c as u32)) {
        let classes: Vec<u8> = n.chars().map(|c| d16.bidi(c)).collect();
        match refmodel::directionality(&classes) {
            refmodel::BidiVerdict::Fails(_) => return vec![Out::Err(E::Invalid)],
            refmodel::BidiVerdict::NoRtl => return vec![Out::Ok(n)],
            refmodel::BidiVerdict::Ok if !refmodel::has_interior_nsm(&classes) => return vec![Out::Ok(n)],
            refmodel::BidiVerdict::Ok => {}
        }
    }
    vec![api::rule(p, RuleK::Dir, &n)]
}

pub fn freeform_prepare(env: &Env, s: &str) -> Result<String, Vec<E>> {
    if s.is_empty() {
        return Err(vec![E::Invalid]);
    }
    allows_ref(env, Class::Freeform, s)?;
    Ok(s.to_string())
}

pub fn opaque_enforce(env: &Env, s: &str, tr: &mut Trace) -> Vec<R> {
    let p = match freeform_prepare(env, s) {
        Ok(p) => p,
        Err(e) => return errs(e),
    };
    let m = refmodel::opaque_spaces(env.d16(), &p);
    tr.spaces = m != p;
    let n = refmodel::nfc(&m);
    tr.norm = n != m;
    if n.is_empty() {
        return vec![Out::Err(E::Invalid)];
    }
    vec![Out::Ok(n)]
}

/// one application of the nickname rules (enforcement or comparison flavour)
pub fn nick_round(env: &Env, s: &str, compare: bool) -> Result<String, Vec<E>> {
    let p = freeform_prepare(env, s)?;
    let m = refmodel::nick_spaces(env.d16(), &p);
    let m = if compare { refmodel::lower(&m) } else { m };
    let n = refmodel::nfkc(&m);
    if n.is_empty() {
        return Err(vec![E::Invalid]);
    }
    Ok(n)
}

/// iterate to stability with the C13 bound (first application + three re-applications)
pub fn nick_stable(env: &Env, s: &str, compare: bool, tr: &mut Trace) -> Vec<R> {
    let mut cur = s.to_string();
    for i in 0..4 {
        tr.rounds = i + 1;
        match nick_round(env, &cur, compare) {
            // C06/C07 say such a string "is rejected"; only the first application sees the caller's string, so
            // only its error is pinned (validate first, on the string as given). Which error reports a failure
            // of a re-application - the intermediate string's BadCodepoint or a plain Invalid - is left open.
            Err(mut e) => {
                if i > 0 {
                    e.push(E::Any);
                }
                return errs(e);
            }
            Ok(n) => {
                if n == cur {
                    return vec![Out::Ok(cur)];
                }
                cur = n;
            }
        }
    }
    vec![Out::Err(E::Invalid)]
}

pub fn prepare_ref(env: &Env, p: Prof, s: &str, tr: &mut Trace) -> Vec<R> {
    let r = match p {
        Prof::Ucm | Prof::Ucp => username_prepare(env, s, tr),
        Prof::Opaque | Prof::Nick => freeform_prepare(env, s),
    };
    match r {
        Ok(x) => vec![Out::Ok(x)],
        Err(e) => errs(e),
    }
}

pub fn enforce_ref(env: &Env, p: Prof, s: &str, tr: &mut Trace) -> Vec<R> {
    match p {
        Prof::Ucm | Prof::Ucp => username_enforce(env, p, s, tr),
        Prof::Opaque => opaque_enforce(env, s, tr),
        Prof::Nick => nick_stable(env, s, false, tr),
    }
}

/// comparison form of a string under a profile
pub fn compare_form_ref(env: &Env, p: Prof, s: &str, tr: &mut Trace) -> Vec<R> {
    match p {
        Prof::Nick => nick_stable(env, s, true, tr),
        _ => enforce_ref(env, p, s, tr),
    }
}

/// acceptable results of compare(a, b)
pub fn compare_ref(env: &Env, p: Prof, a: &str, b: &str) -> Vec<api::RB> {
    let mut t = Trace::default();
    let fa = compare_form_ref(env, p, a, &mut t);
    if !fa[0].is_ok() {
        return fa
            .into_iter()
            .map(|r| match r {
                Out::Err(e) => Out::Err(e),
                Out::Panic(p) => Out::Panic(p),
                Out::Ok(_) => unreachable!(),
            })
            .collect();
    }
    let fb = compare_form_ref(env, p, b, &mut t);
    if !fb[0].is_ok() {
        return fb
            .into_iter()
            .map(|r| match r {
                Out::Err(e) => Out::Err(e),
                Out::Panic(p) => Out::Panic(p),
                Out::Ok(_) => unreachable!(),
            })
            .collect();
    }
    vec![Out::Ok(fa[0] == fb[0])]
}

pub fn show_set(v: &[R]) -> String {
    v.iter().map(api::show_r).collect::<Vec<_>>().join(" or ")
}
