//! C07 - compare is equality of comparison forms: an equivalence with strict errors

use super::pipes::{self, Trace};
use crate::api::{self, Out, Prof, ALL_PROF, R, RB};
use crate::gen;
use crate::util::{self, par, Rec, Rng, Witness};
use crate::Env;

fn expected_pair(fa: &[R], fb: &[R]) -> Vec<RB> {
    let to_err = |v: &[R]| -> Vec<RB> {
        v.iter()
            .map(|r| match r {
                Out::Err(e) => Out::Err(e.clone()),
                Out::Panic(p) => Out::Panic(p.clone()),
                Out::Ok(_) => unreachable!(),
            })
            .collect()
    };
    if !fa[0].is_ok() {
        return to_err(fa);
    }
    if !fb[0].is_ok() {
        return to_err(fb);
    }
    vec![Out::Ok(fa[0] == fb[0])]
}

pub fn check_family(env: &Env, p: Prof, fam: &[String], rec: &mut Rec) {
    let n = fam.len();
    let forms: Vec<Vec<R>> = fam.iter().map(|s| pipes::compare_form_ref(env, p, s, &mut Trace::default())).collect();
    let enforced: Vec<R> = fam.iter().map(|s| api::enforce(p, s)).collect();
    let mut m: Vec<Vec<RB>> = Vec::with_capacity(n);
    for i in 0..n {
        let mut row = Vec::with_capacity(n);
        for j in 0..n {
            let got = api::compare(p, &fam[i], &fam[j]);
            rec.eval();
            let case = || format!("profile={};a={};b={}", p.name(), util::esc(&fam[i]).replace(';', "\\u{3B}"), util::esc(&fam[j]));
            let want = expected_pair(&forms[i], &forms[j]);
            if !api::accepts(&want, &got) {
                rec.violation(
                    "compare-differs-from-equality-of-reference-comparison-forms",
                    Witness {
                        op: format!("{}::compare", p.name()),
                        case: case(),
                        expected: want.iter().map(api::show).collect::<Vec<_>>().join(" or "),
                        observed: api::show(&got),
                    },
                );
            }
            if p != Prof::Nick {
                // compare(a, b) equals enforce(a) == enforce(b), with the library's own enforce
                let want2: RB = match (&enforced[i], &enforced[j]) {
                    (Out::Ok(x), Out::Ok(y)) => Out::Ok(x == y),
                    (Out::Err(e), _) => Out::Err(e.clone()),
                    (Out::Panic(q), _) => Out::Panic(q.clone()),
                    (_, Out::Err(e)) => Out::Err(e.clone()),
                    (_, Out::Panic(q)) => Out::Panic(q.clone()),
                };
                if got != want2 {
                    rec.violation(
                        "compare-differs-from-equality-of-enforced-forms",
                        Witness { op: format!("{}::compare", p.name()), case: case(), expected: api::show(&want2), observed: api::show(&got) },
                    );
                }
            }
            if (i + j) % 3 == 0 {
                let st = api::s_compare(p, &fam[i], &fam[j]);
                rec.eval();
                if st != got {
                    rec.violation(
                        "static-compare-differs-from-instance-compare",
                        Witness { op: format!("{}::compare (PrecisFastInvocation)", p.name()), case: case(), expected: api::show(&got), observed: api::show(&st) },
                    );
                }
            }
            if fam[i] != fam[j] {
                match &got {
                    Out::Ok(true) => rec.nontrivial("different-strings:equal", &(p, &fam[i], &fam[j]), || {
                        format!("{} \"{}\" ~ \"{}\"", p.name(), util::esc(&fam[i]), util::esc(&fam[j]))
                    }),
                    Out::Ok(false) => rec.count("different-strings:not-equal"),
                    Out::Err(_) => {
                        if forms[i][0].is_ok() != forms[j][0].is_ok() {
                            rec.nontrivial("one-side-rejected", &(p, &fam[i], &fam[j]), || {
                                format!("{} \"{}\" vs \"{}\"", p.name(), util::esc(&fam[i]), util::esc(&fam[j]))
                            })
                        } else {
                            rec.count("both-sides-rejected")
                        }
                    }
                    Out::Panic(_) => rec.count("panic"),
                }
            } else {
                rec.count("same-string");
            }
            row.push(got);
        }
        m.push(row);
    }
    // second pass in pair-major order with the other profiles called in between on the same operands: every
    // result must equal the first evaluation (a memo shared between profiles or keyed too coarsely shows here)
    for i in 0..n {
        for j in 0..n {
            if (i * 7 + j * 3) % 4 != 0 {
                continue;
            }
            for q in ALL_PROF {
                if q != p {
                    let _ = api::s_compare(q, &fam[i], &fam[j]);
                }
                let again = if (i + j) % 2 == 0 { api::compare(p, &fam[i], &fam[j]) } else { api::s_compare(p, &fam[i], &fam[j]) };
                rec.eval();
                if again != m[i][j] {
                    rec.violation(
                        "compare-result-changes-with-call-history",
                        Witness {
                            op: format!("{}::compare after {}::compare on the same operands", p.name(), q.name()),
                            case: format!("profile={};a={};b={}", p.name(), util::esc(&fam[i]).replace(';', "\\u{3B}"), util::esc(&fam[j])),
                            expected: api::show(&m[i][j]),
                            observed: api::show(&again),
                        },
                    );
                }
            }
        }
    }
    // operands presented from reused buffers: members of equal byte length are written one after the other into
    // the same String (same address, same length, different content) and compared with a third member; each
    // result must equal the matrix entry of the strings' content (a memo keyed by slice identity shows here)
    let mut bufa = String::with_capacity(fam.iter().map(|s| s.len()).max().unwrap_or(0) + 8);
    let mut bufb = String::with_capacity(bufa.capacity());
    for i in 0..n {
        for j in 0..n {
            if i >= j || fam[i].len() != fam[j].len() || fam[i] == fam[j] {
                continue;
            }
            for k in [i, j, (i + j) % n] {
                for side in 0..2 {
                    let mut step = |x: usize, rec: &mut Rec| {
                        let (got, want) = if side == 0 {
                            bufa.clear();
                            bufa.push_str(&fam[x]);
                            (if k % 2 == 0 { api::compare(p, &bufa, &fam[k]) } else { api::s_compare(p, &bufa, &fam[k]) }, &m[x][k])
                        } else {
                            bufb.clear();
                            bufb.push_str(&fam[x]);
                            (if k % 2 == 0 { api::s_compare(p, &fam[k], &bufb) } else { api::compare(p, &fam[k], &bufb) }, &m[k][x])
                        };
                        rec.eval();
                        rec.count("reused-buffer-operand");
                        if &got != want {
                            let (a, b) = if side == 0 { (x, k) } else { (k, x) };
                            rec.violation(
                                "compare-depends-on-operand-buffer-history",
                                Witness {
                                    op: format!("{}::compare with the {} operand in a reused buffer (previous content: \"{}\")", p.name(), if side == 0 { "first" } else { "second" }, util::esc(&fam[if x == i { j } else { i }])),
                                    case: format!("profile={};a={};b={}", p.name(), util::esc(&fam[a]).replace(';', "\\u{3B}"), util::esc(&fam[b])),
                                    expected: api::show(want),
                                    observed: api::show(&got),
                                },
                            );
                        }
                    };
                    step(i, rec);
                    step(j, rec);
                    step(i, rec);
                }
            }
        }
    }
    // relational monitors over the recorded matrix
    let case2 = |i: usize, j: usize| format!("profile={};a={};b={}", p.name(), util::esc(&fam[i]).replace(';', "\\u{3B}"), util::esc(&fam[j]));
    for i in 0..n {
        if forms[i][0].is_ok() && m[i][i] != Out::Ok(true) {
            rec.violation(
                "compare-not-reflexive-on-accepted-string",
                Witness { op: format!("{}::compare", p.name()), case: case2(i, i), expected: "Ok(true)".into(), observed: api::show(&m[i][i]) },
            );
        }
        for j in 0..n {
            let sym = match (&m[i][j], &m[j][i]) {
                (Out::Ok(a), Out::Ok(b)) => a == b,
                (Out::Err(_), Out::Err(_)) => true,
                _ => false,
            };
            if !sym {
                rec.violation(
                    "compare-not-symmetric",
                    Witness { op: format!("{}::compare", p.name()), case: case2(i, j), expected: format!("mirror of {}", api::show(&m[j][i])), observed: api::show(&m[i][j]) },
                );
            }
            if m[i][j] == Out::Ok(true) {
                for k in 0..n {
                    if m[j][k] == Out::Ok(true) && m[i][k] != Out::Ok(true) {
                        rec.violation(
                            "compare-not-transitive",
                            Witness {
                                op: format!("{}::compare", p.name()),
                                case: format!("{};c={}", case2(i, j), util::esc(&fam[k])),
                                expected: "a~b and b~c imply a~c".into(),
                                observed: api::show(&m[i][k]),
                            },
                        );
                    }
                }
            }
        }
    }
}

fn family(env: &Env, rng: &mut Rng, j: usize) -> Vec<String> {
    let p = env.pools();
    let sub = rng.below(40);
    let seed = match j % 6 {
        0 => gen::name_like(p, rng, 8),
        1 => format!("{} {}", gen::name_like(p, rng, 5), gen::name_like(p, rng, 5)),
        2 => super::c04::username_input(env, rng, sub),
        3 => super::c06::nickname_input(env, rng, sub),
        4 => super::c05::freeform_input(env, rng, sub),
        _ => {
            let mut s = gen::name_like(p, rng, 4);
            gen::push_kind(p, rng, gen::Kind::Title, &mut s);
            gen::push_kind(p, rng, gen::Kind::Cased, &mut s);
            s
        }
    };
    let n = rng.range(4, 10);
    let mut f = env.var().family(p, rng, &seed, n);
    if j % 16 == 5 {
        // length extensions: pairs where one operand is a prefix of the other and the byte lengths differ by
        // exactly 1 / 255 / 256 / 257 / 512 (and 256 bytes in 64 four-byte characters)
        let base: String = f[0].chars().take(12).collect();
        f.truncate(3);
        f.push(base.clone());
        f.extend(super::hostile::extensions(&base, j % 320 == 5));
    } else if j % 16 == 9 {
        // long members with the differing character at a power-of-two byte offset
        let a = super::hostile::around_boundary(rng, &f[0].chars().take(4).collect::<String>(), &f[1].chars().take(4).collect::<String>(), 1024);
        if let Some(b) = super::hostile::same_length_variant(rng, &a) {
            f.truncate(4);
            f.push(env.var().variant(p, rng, &a));
            f.push(a);
            f.push(b);
        }
    }
    if j % 4 == 1 {
        // a member of exactly the same byte length as another one (reused-buffer pass of check_family)
        let k = rng.below(f.len());
        if let Some(b) = super::hostile::same_length_variant(rng, &f[k]) {
            f.push(b);
        }
    }
    f
}

/// every scalar value in a small cased context, as a pair of spellings that differ in case only: the
/// comparison must follow the reference comparison forms for each of them (a fast path that mis-maps one
/// rare character only after the string has started to change shows here)
fn scalar_sweep(env: &Env, rec: &mut Rec) {
    let all_ctx = !env.quick();
    let chunk = 0x400u32;
    let d6 = env.d6();
    let r = par((0x110000 / chunk) as usize, |c, rec| {
        for cp in (c as u32 * chunk)..((c as u32 + 1) * chunk) {
            let ch = match char::from_u32(cp) {
                Some(ch) => ch,
                None => continue,
            };
            let low: String = ch.to_lowercase().collect();
            let up: String = ch.to_uppercase().collect();
            // quick tier: all four contexts for what the FreeformClass can contain, one for the rest
            let valid = !matches!(crate::refmodel::derived(d6, cp).0, crate::refmodel::Abs::Disallowed | crate::refmodel::Abs::Unassigned);
            for ctx in 0..4u32 {
                if !all_ctx && !valid && ctx != cp % 4 {
                    continue;
                }
                let fam: Vec<String> = match ctx {
                    0 => vec![format!("A{}", ch), format!("a{}", low)],
                    1 => vec![format!("{}A", ch), format!("{}a", up)],
                    2 => vec![format!("Team 3{}4", ch), format!("team 3{}4", ch)],
                    _ => vec![format!("{}", ch), low.clone(), up.clone()],
                };
                for p in ALL_PROF {
                    check_family(env, p, &fam, rec);
                }
            }
        }
    });
    rec.merge(r);
    rec.exhaustive(if all_ctx {
        "every Unicode scalar value in four cased contexts (A+c / a+lower(c); c+A / upper(c)+a; 'Team 3c4' / 'team 3c4'; c / lower(c) / upper(c)), all four profiles"
    } else {
        "every Unicode scalar value that is not DISALLOWED/UNASSIGNED in four cased contexts (A+c / a+lower(c); c+A / upper(c)+a; 'Team 3c4' / 'team 3c4'; c / lower(c) / upper(c)), every other scalar value in one of them (c mod 4), all four profiles"
    });
}

pub fn run(env: &Env) -> Rec {
    let mut rec = Rec::new();
    let n = env.n(30_000, 400_000);
    let per = 50usize;
    let r = par(n.div_ceil(per), |c, rec| {
        let mut rng = Rng::stream(env.seed, 0x07_0000 + c as u64);
        for j in 0..per {
            let fam = family(env, &mut rng, j);
            for p in ALL_PROF {
                check_family(env, p, &fam, rec);
            }
        }
    });
    rec.merge(r);
    // deterministic families: case / width / spacing / normalisation spellings and titlecase letters
    let fixed: Vec<Vec<&str>> = vec![
        vec!["\u{1F88}", "\u{1F80}", "\u{1F00}\u{345}", "a"],
        vec!["\u{1C5}", "\u{1C6}", "\u{1C4}", "d\u{17E}", "D\u{17D}"],
        vec!["Guybrush  Threepwood ", "guybrush threepwood", "GUYBRUSH\u{A0}THREEPWOOD", "\u{FF27}uybrush Threepwood"],
        vec!["\u{FF21}\u{30A}", "\u{C5}", "\u{212B}", "\u{E5}", "a\u{30A}"],
        vec!["", " ", "\u{0}", "a\u{0}", "\u{378}", "a"],
        vec!["\u{5D0}1", "\u{5D0}", "1\u{5D0}", "\u{5D0}\u{661}", "\u{5D0}1\u{661}"],
    ];
    scalar_sweep(env, &mut rec);
    for f in fixed {
        let fam: Vec<String> = f.iter().map(|s| s.to_string()).collect();
        for p in ALL_PROF {
            check_family(env, p, &fam, &mut rec);
        }
    }
    rec
}

pub fn replay(env: &Env, _op: &str, case: &str) -> Rec {
    let mut rec = Rec::new();
    let p = super::kv_get(case, "profile").and_then(Prof::from_name);
    let a = super::kv_get(case, "a").and_then(util::unesc);
    // b is the last literal unless a third member c follows
    let (b, c) = match case.find(";b=") {
        Some(i) => {
            let rest = &case[i + 3..];
            match rest.rfind(";c=") {
                Some(k) => (util::unesc(&rest[..k]), util::unesc(&rest[k + 3..])),
                None => (util::unesc(rest), None),
            }
        }
        None => (None, None),
    };
    match (p, a, b) {
        (Some(p), Some(a), Some(b)) => {
            let mut fam = vec![a, b];
            if let Some(c) = c {
                fam.push(c);
            }
            check_family(env, p, &fam, &mut rec)
        }
        _ => rec.note("HARNESS-ERROR: cannot parse replay case"),
    }
    rec
}
