//! C18 - Codepoints entries compare consistently with code points

use crate::api::{guard_v, Out};
use crate::util::{par, Rec, Rng, Witness};
use crate::Env;
use precis_core::Codepoints;
use std::cmp::Ordering;

fn mk(a: u32, b: u32, range: bool) -> Codepoints {
    if range {
        Codepoints::Range(a..=b)
    } else {
        Codepoints::Single(a)
    }
}

fn model(a: u32, b: u32, cp: u32) -> Ordering {
    if b < cp {
        Ordering::Less
    } else if a > cp {
        Ordering::Greater
    } else {
        Ordering::Equal
    }
}

/// the 14 relations of one (entry, cp) pair as observed (`!=` is its own method and may be overridden)
#[allow(clippy::type_complexity)]
fn observe(e: &Codepoints, cp: u32) -> Out<(Option<Ordering>, [bool; 6], Option<Ordering>, [bool; 6])> {
    guard_v(|| {
        (
            e.partial_cmp(&cp),
            [*e < cp, *e <= cp, *e > cp, *e >= cp, *e == cp, *e != cp],
            cp.partial_cmp(e),
            [cp < *e, cp <= *e, cp > *e, cp >= *e, cp == *e, cp != *e],
        )
    })
}

fn expected(o: Ordering) -> (Option<Ordering>, [bool; 6], Option<Ordering>, [bool; 6]) {
    (
        Some(o),
        [o == Ordering::Less, o != Ordering::Greater, o == Ordering::Greater, o != Ordering::Less, o == Ordering::Equal, o != Ordering::Equal],
        Some(o.reverse()),
        [o == Ordering::Greater, o != Ordering::Less, o == Ordering::Less, o != Ordering::Greater, o == Ordering::Equal, o != Ordering::Equal],
    )
}

fn check_pair(a: u32, b: u32, range: bool, cp: u32, rec: &mut Rec) {
    let e = mk(a, b, range);
    let (lo, hi) = if range { (a, b) } else { (a, a) };
    let want = expected(model(lo, hi, cp));
    let got = observe(&e, cp);
    rec.evals(14);
    let key = (a, b, range, cp);
    let pos = if cp < lo {
        if cp + 1 == lo { "cp=start-1" } else { "cp<start" }
    } else if cp > hi {
        if hi + 1 == cp { "cp=end+1" } else { "cp>end" }
    } else if cp == lo && cp == hi {
        "cp=start=end"
    } else if cp == lo {
        "cp=start"
    } else if cp == hi {
        "cp=end"
    } else {
        "inside"
    };
    let class = format!("{}:{}", if range { "range" } else { "single" }, pos);
    rec.nontrivial(&class, &key, || format!("{:?} vs {:#x}", e, cp));
    if got != Out::Ok(want) {
        rec.violation(
            "codepoints-comparison-inconsistent",
            Witness {
                op: "partial_cmp/<,<=,>,>=,==,!= both directions".into(),
                case: format!("a={:X};b={:X};range={};cp={:X}", a, b, range as u8, cp),
                expected: format!("{:?}", want),
                observed: format!("{:?}", got),
            },
        );
    }
}

fn window(env: &Env) -> Vec<u32> {
    let k = if env.quick() { 16u32 } else { 40 };
    let mut w: Vec<u32> = (0..k).collect();
    w.extend(u32::MAX - (k - 1)..=u32::MAX);
    let h = if env.quick() { 4u32 } else { 12 };
    w.extend(0x10FFFF - h + 1..=0x10FFFF + h);
    w.sort();
    w.dedup();
    w
}

fn random_table(rng: &mut Rng, dense: bool) -> Vec<(u32, u32, bool)> {
    let n = rng.range(0, 40);
    let mut t = Vec::new();
    // tables anywhere in the u32 range, not only near zero
    let mut next = match rng.below(4) {
        0 => rng.below(5) as u32,
        1 => 0x7FFF_FF00 + rng.below(0x200) as u32,
        2 => u32::MAX - rng.below(200_000) as u32,
        _ => (rng.next() as u32) >> rng.below(24),
    };
    for _ in 0..n {
        let gap = if dense { rng.below(3) as u32 } else { rng.below(4000) as u32 };
        let start = match next.checked_add(gap) {
            Some(s) => s,
            None => break,
        };
        let range = rng.chance(1, 2);
        let len = if range { if dense { rng.below(4) as u32 } else { rng.below(3000) as u32 } } else { 0 };
        let end = match start.checked_add(len) {
            Some(e) => e,
            None => break,
        };
        t.push((start, end, range));
        next = match end.checked_add(1) {
            Some(x) => x,
            None => break,
        };
    }
    t
}

fn check_table(t: &[(u32, u32, bool)], probes: &[u32], rec: &mut Rec, key: u64) {
    let table: Vec<Codepoints> = t.iter().map(|(a, b, r)| mk(*a, *b, *r)).collect();
    for cp in probes {
        let cp = *cp;
        let got = guard_v(|| table.binary_search_by(|e| e.partial_cmp(&cp).unwrap()).ok());
        rec.eval();
        let want = t.iter().position(|(a, b, _)| *a <= cp && cp <= *b);
        let class = if want.is_some() { "table-search:hit" } else { "table-search:miss" };
        rec.nontrivial(class, &(key, cp), || format!("table of {} entries, cp {:#x} -> {:?}", t.len(), cp, want));
        if got != Out::Ok(want) {
            let ts: Vec<String> =
                t.iter().map(|(a, b, r)| format!("{:X}-{:X}-{}", a, b, *r as u8)).collect();
            rec.violation(
                "binary-search-over-codepoints-table-wrong",
                Witness {
                    op: "binary_search_by(|e| e.partial_cmp(&cp).unwrap())".into(),
                    case: format!("table={};cp={:X}", ts.join(","), cp),
                    expected: format!("{:?}", want),
                    observed: format!("{:?}", got),
                },
            );
        }
    }
}

pub fn run(env: &Env) -> Rec {
    let w = window(env);
    let mut rec = Rec::new();
    // exhaustive window: all Single(a), Range(a..=b) a<=b, all cp in the window
    let n = w.len();
    let r1 = par(n, |i, rec| {
        let a = w[i];
        for &cp in &w {
            check_pair(a, a, false, cp, rec);
        }
        for &b in &w[i..] {
            for &cp in &w {
                check_pair(a, b, true, cp, rec);
            }
        }
    });
    rec.merge(r1);
    rec.exhaustive(format!(
        "all Single(a)/Range(a..=b), a<=b, against all cp over a {}-value window ({:#x}..,..{:#x}, around 0x10FFFF): 12 relations per pair",
        n,
        w[0],
        w[n - 1]
    ));
    // the other hand-written PartialEq impls: observed, not judged (outside the property)
    let mut asym = 0u64;
    for &a in &w[..6.min(n)] {
        for &b in &w[..6.min(n)] {
            if a <= b {
                let r = Codepoints::Range(a..=b);
                let _ = guard_v(|| (r == (a..=b), (a..=b) == r, r == (a, b), (a, b) == r));
                for &c in &w[..6.min(n)] {
                    let s = Codepoints::Single(c);
                    if let Out::Ok((x, y)) = guard_v(|| (s == r, r == s)) {
                        if x != y {
                            asym += 1;
                        }
                    }
                }
            }
        }
    }
    rec.count_n("observed-only:Codepoints==Codepoints asymmetric pairs (not part of C18)", asym);
    // magnitudes: special values across the whole u32 range (powers of two and their neighbours, 2^31 region,
    // 0xFFFF/0x10000 straddles) as a, b and cp, exhaustively over the special set; then random triples
    let mut special: Vec<u32> = vec![0, 1, 2, 0xFFFE, 0xFFFF, 0x10000, 0x10001, 0x10FFFF, 0x110000, u32::MAX - 1, u32::MAX];
    for sh in 1..32 {
        let p = 1u32 << sh;
        special.extend([p - 1, p, p.wrapping_add(1)]);
    }
    special.extend([0x7FFF_FFFE, 0x7FFF_FFFF, 0x8000_0000, 0x8000_0001, 0xFFFF_0000, 0x0001_0000, 0xAAAA_AAAA, 0x5555_5555]);
    special.sort();
    special.dedup();
    let ns = special.len();
    let rs = par(ns, |i, rec| {
        let a = special[i];
        for &cp in &special {
            check_pair(a, a, false, cp, rec);
        }
        for &b in &special[i..] {
            for &cp in &special {
                check_pair(a, b, true, cp, rec);
            }
        }
    });
    rec.merge(rs);
    rec.exhaustive(format!("all Single/Range entries and code points over {} special magnitudes (powers of two +-1 up to 2^31, 0xFFFF/0x10000, u32::MAX)", ns));
    let n_tri = env.n(3_000_000, 30_000_000);
    let rt = par(n_tri / 50_000, |i, rec| {
        let mut rng = Rng::stream(env.seed, 0x18_8000 + i as u64);
        let pickv = |rng: &mut Rng| -> u32 {
            match rng.below(4) {
                0 => rng.next() as u32,
                1 => special[rng.below(special.len())].wrapping_add(rng.below(5) as u32).wrapping_sub(2),
                2 => (rng.next() as u32) >> rng.below(32),
                _ => rng.below(0x120000) as u32,
            }
        };
        for _ in 0..50_000 {
            let (x, y, cp) = (pickv(&mut rng), pickv(&mut rng), pickv(&mut rng));
            let (a, b) = if x <= y { (x, y) } else { (y, x) };
            check_pair(a, b, true, cp, rec);
            check_pair(a, b, true, if rng.chance(1, 2) { a } else { b }, rec);
            check_pair(x, x, false, cp, rec);
        }
    });
    rec.merge(rt);
    // random sorted disjoint tables, searched the way the library searches
    let n_tables = env.n(200_000, 5_000_000);
    let per = 500;
    let r2 = par(n_tables.div_ceil(per), |i, rec| {
        let mut rng = Rng::stream(env.seed, 0x18_0000 + i as u64);
        for j in 0..per {
            let dense = rng.chance(1, 2);
            let t = random_table(&mut rng, dense);
            let mut probes = Vec::new();
            for (a, b, _) in &t {
                probes.push(*a);
                probes.push(*b);
                probes.push(a.wrapping_sub(1));
                probes.push(b.wrapping_add(1));
                probes.push(a + (b - a) / 2);
            }
            probes.push(0);
            probes.push(u32::MAX);
            probes.push(rng.next() as u32);
            check_table(&t, &probes, rec, (i * per + j) as u64 ^ env.seed.rotate_left(32));
        }
    });
    rec.merge(r2);
    rec
}

pub fn replay(_env: &Env, _op: &str, case: &str) -> Rec {
    let mut rec = Rec::new();
    let h = |k: &str| super::kv_get(case, k).and_then(|s| u32::from_str_radix(s, 16).ok());
    if let Some(tab) = super::kv_get(case, "table") {
        let mut t = Vec::new();
        for e in tab.split(',').filter(|s| !s.is_empty()) {
            let p: Vec<&str> = e.split('-').collect();
            if p.len() == 3 {
                if let (Ok(a), Ok(b)) = (u32::from_str_radix(p[0], 16), u32::from_str_radix(p[1], 16)) {
                    t.push((a, b, p[2] == "1"));
                }
            }
        }
        if let Some(cp) = h("cp") {
            check_table(&t, &[cp], &mut rec, 0);
            return rec;
        }
    }
    match (h("a"), h("b"), super::kv_get(case, "range"), h("cp")) {
        (Some(a), Some(b), Some(r), Some(cp)) => check_pair(a, b, r == "1", cp, &mut rec),
        _ => rec.note("HARNESS-ERROR: cannot parse replay case"),
    }
    rec
}
