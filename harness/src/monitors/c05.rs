//! C05 - OpaqueString applies RFC 8265 section 4.2 exactly

use super::c04::check_prepare_enforce;
use crate::api::{Out, Prof};
use crate::gen;
use crate::refmodel;
use crate::ucd::NCP;
use crate::util::{self, par, Rec, Rng};
use crate::Env;

pub fn check(env: &Env, s: &str, rec: &mut Rec) {
    let (got, tr) = check_prepare_enforce(env, Prof::Opaque, s, rec, "opaque");
    match &got {
        Out::Ok(o) => {
            let compat = s.chars().any(|c| refmodel::has_compat(c as u32));
            let cased = s.chars().any(|c| c.is_uppercase());
            let class = format!(
                "accepted:{}{}{}{}",
                if tr.spaces { "S" } else { "-" },
                if tr.norm { "N" } else { "-" },
                if compat { ":compat-kept" } else { "" },
                if cased { ":case-kept" } else { "" }
            );
            if tr.spaces || tr.norm || compat || cased {
                rec.nontrivial(&class, &s, || format!("enforce(\"{}\") = \"{}\"", util::esc(s), util::esc(o)));
            } else {
                rec.count(&class);
            }
        }
        Out::Err(e) => rec.count(&format!("rejected:{}", super::err_kind(e))),
        Out::Panic(_) => rec.count("panic"),
    }
}

pub fn freeform_input(env: &Env, rng: &mut Rng, j: usize) -> String {
    let p = env.pools();
    match j % 8 {
        0 => {
            let b = gen::name_like(p, rng, 10);
            env.var().variant(p, rng, &b)
        }
        1 => {
            // passwords: mixed case, symbols, compat characters, spaces of all kinds
            let mut s = String::new();
            for _ in 0..rng.range(1, 12) {
                let k = *rng.pick(&[
                    gen::Kind::AsciiLower,
                    gen::Kind::AsciiUpper,
                    gen::Kind::Punct,
                    gen::Kind::Digit,
                    gen::Kind::Zs,
                    gen::Kind::AsciiSpace,
                    gen::Kind::NfkcDiff,
                    gen::Kind::FreePval,
                    gen::Kind::ComposePair,
                    gen::Kind::Width,
                    gen::Kind::Upper,
                ]);
                gen::push_kind(p, rng, k, &mut s);
            }
            s
        }
        2 => {
            use unicode_normalization::UnicodeNormalization;
            let b = gen::random_string(p, rng, gen::MIX_FREEFORM, 12);
            b.nfd().collect()
        }
        3 => gen::random_string(p, rng, gen::MIX_HOSTILE, 16),
        4 => {
            let core = gen::name_like(p, rng, 6);
            gen::edge_whitespace(p, rng, &core)
        }
        _ => gen::random_string(p, rng, gen::MIX_FREEFORM, 24),
    }
}

const ALPHA: [char; 8] = [' ', '\u{A0}', 'a', '\u{E9}', '\u{20AC}', '\u{1F600}', '\u{FF21}', 'A'];

pub fn run(env: &Env) -> Rec {
    let mut rec = Rec::new();
    let d16 = env.d16();
    let max_len = if env.quick() { 5 } else { 7 };
    // every Zs at every position: exhaustive over {SP, z, a, e-acute, euro, emoji, fullwidth A, A} for each non-ASCII Zs z
    let zs: Vec<char> = d16.zs.iter().filter_map(|c| char::from_u32(*c)).filter(|c| *c != ' ').collect();
    let total = util::n_strings(8, max_len);
    let per = 4096usize;
    let nz = if env.quick() { zs.len() } else { zs.len() };
    // quick: a rotating subset of the Zs code points (seed dependent) gets the full enumeration
    let r1 = par(nz * total.div_ceil(per), |c, rec| {
        let zi = c / total.div_ceil(per);
        let z = zs[(zi + env.seed as usize) % zs.len()];
        let cc = c % total.div_ceil(per);
        let mut alpha = ALPHA;
        alpha[1] = z;
        let mut idx = Vec::new();
        for n in cc * per..((cc + 1) * per).min(total) {
            util::nth_seq(8, n, &mut idx);
            check(env, &gen::string_from_indices(&alpha, &idx), rec);
        }
    });
    rec.merge(r1);
    rec.exhaustive(format!("all strings up to length {} over {{SP, Zs, a, E9, 20AC, 1F600, FF21, A}} for {} non-ASCII Zs code points", max_len, nz));
    // every Zs in short frames, all of them in every tier
    for z in &zs {
        for f in ["{}", "a{}", "{}a", "a{}b", "\u{E9}{}\u{1F600}", "{}{}", " {} ", "a{} {}b"] {
            check(env, &f.replace("{}", &z.to_string()), &mut rec);
        }
    }
    // all code points singly and framed
    let chunk = 0x400usize;
    let r2 = par(NCP / chunk, |i, rec| {
        let mut s = String::new();
        for cp in (i * chunk) as u32..((i + 1) * chunk) as u32 {
            if let Some(c) = char::from_u32(cp) {
                for t in 0..3 {
                    s.clear();
                    match t {
                        0 => s.push(c),
                        1 => {
                            s.push('x');
                            s.push(c);
                            s.push('x')
                        }
                        _ => {
                            s.push_str("x\u{A0}");
                            s.push(c)
                        }
                    }
                    check(env, &s, rec);
                }
            }
        }
    });
    rec.merge(r2);
    rec.exhaustive("every Unicode scalar value c in the frames c, x c x, x NBSP c");
    // all canonical decompositions, given in decomposed form
    for (cp, (tag, map)) in &d16.ud.decomp {
        if tag.is_none() {
            if let Some(s) = map.iter().map(|c| char::from_u32(*c)).collect::<Option<String>>() {
                check(env, &s, &mut rec);
                check(env, &format!("a{}\u{A0}", s), &mut rec);
            }
        }
        let _ = cp;
    }
    let n = env.n(2_000_000, 60_000_000);
    let per = 1000usize;
    let r3 = par(n.div_ceil(per), |c, rec| {
        let mut rng = Rng::stream(env.seed, 0x05_0000 + c as u64);
        for j in 0..per {
            let s = freeform_input(env, &mut rng, j);
            check(env, &s, rec);
        }
    });
    rec.merge(r3);
    let n_long = env.n(15_000, 500_000);
    let per = 200usize;
    let r4 = par(n_long.div_ceil(per), |c, rec| {
        let mut rng = Rng::stream(env.seed, 0x05_C000 + c as u64);
        super::hostile::drive(&mut rng, per, 65536, |rng| { let j = rng.below(8); let s = freeform_input(env, rng, j); s.chars().take(6).collect() }, |s| check(env, s, rec));
    });
    rec.merge(r4);
    check(env, "", &mut rec);
    rec
}

pub fn replay(env: &Env, _op: &str, case: &str) -> Rec {
    let mut rec = Rec::new();
    match super::kv_get_last(case, "label").and_then(util::unesc) {
        Some(s) => check(env, &s, &mut rec),
        None => rec.note("HARNESS-ERROR: cannot parse replay case"),
    }
    rec
}
