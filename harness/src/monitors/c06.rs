//! C06 - Nickname enforcement applies the RFC 8266 rules until the string is stable

use super::c04::check_prepare_enforce;
use super::pipes;
use crate::api::{Out, Prof};
use crate::gen;
use crate::util::{self, par, Rec, Rng, Witness};
use crate::Env;

pub fn check(env: &Env, s: &str, rec: &mut Rec) {
    let (got, tr) = check_prepare_enforce(env, Prof::Nick, s, rec, "nickname");
    match &got {
        Out::Ok(x) => {
            // every accepted result is a fixed point of the nickname rules
            let again = pipes::nick_round(env, x, false);
            if again != Ok(x.clone()) {
                rec.violation(
                    "nickname-enforce-result-is-not-a-fixed-point",
                    Witness {
                        op: "Nickname::enforce".into(),
                        case: format!("profile=Nickname;label={}", util::esc(s)),
                        expected: format!("rules(x) = x for x = \"{}\"", util::esc(x)),
                        observed: format!("{:?}", again.map(|y| util::esc(&y))),
                    },
                );
            }
            let class = format!("accepted-after-{}-applications", tr.rounds);
            if tr.rounds >= 2 {
                rec.nontrivial(&class, &s, || format!("enforce(\"{}\") = \"{}\"", util::esc(s), util::esc(x)));
            } else {
                rec.count(&class);
            }
        }
        Out::Err(e) => {
            let class = format!("rejected-at-application-{}:{}", tr.rounds, super::err_kind(e));
            if tr.rounds >= 2 {
                rec.nontrivial(&class, &s, || format!("enforce(\"{}\")", util::esc(s)));
            } else {
                rec.count(&class);
            }
        }
        Out::Panic(_) => rec.count("panic"),
    }
}

pub fn nickname_input(env: &Env, rng: &mut Rng, j: usize) -> String {
    let p = env.pools();
    match j % 8 {
        0 | 1 => {
            // characters whose NFKC introduces spaces or needs further mapping
            let mut s = String::new();
            for _ in 0..rng.range(1, 6) {
                let k = *rng.pick(&[
                    gen::Kind::SpaceIntro,
                    gen::Kind::SpaceIntro,
                    gen::Kind::NfkcDiff,
                    gen::Kind::Mark,
                    gen::Kind::Zs,
                    gen::Kind::AsciiSpace,
                    gen::Kind::AsciiLower,
                    gen::Kind::Letter,
                    gen::Kind::Width,
                    gen::Kind::ComposePair,
                ]);
                gen::push_kind(p, rng, k, &mut s);
            }
            s
        }
        2 => {
            let b = gen::name_like(p, rng, 8);
            let b = format!("{} {}", b, gen::name_like(p, rng, 6));
            env.var().variant(p, rng, &b)
        }
        3 => {
            let core = format!("{} {}", gen::name_like(p, rng, 5), gen::name_like(p, rng, 4));
            gen::edge_whitespace(p, rng, &core)
        }
        _ => super::c05::freeform_input(env, rng, j),
    }
}

pub fn run(env: &Env) -> Rec {
    let mut rec = Rec::new();
    let p = env.pools();
    // all pairs (quick) / triples (thorough) over the space-introducing pool + marks + spaces
    let mut pool: Vec<char> = p.space_intro.clone();
    pool.extend(['\u{301}', '\u{308}', ' ', '\u{A0}', 'a', '\u{FF21}', '\u{3000}', '\u{E9}']);
    let k = pool.len();
    let r1 = par(k, |a, rec| {
        let mut s = String::new();
        for b in 0..k {
            s.clear();
            s.push(pool[a]);
            s.push(pool[b]);
            check(env, &s, rec);
            if true {
                for c in 0..k {
                    s.clear();
                    s.push(pool[a]);
                    s.push(pool[b]);
                    s.push(pool[c]);
                    check(env, &s, rec);
                }
            }
        }
    });
    rec.merge(r1);
    rec.exhaustive(format!(
        "all pairs{} over the {} characters whose NFKC form introduces a space, plus marks, spaces and multi-byte letters ({} symbols)",
        " and triples",
        p.space_intro.len(),
        k
    ));
    // exhaustive short strings over representatives
    let alpha: [char; 9] = [' ', '\u{A0}', 'a', '\u{E9}', '\u{A8}', '\u{FDFA}', '\u{301}', '\u{FF21}', '\u{1F600}'];
    let max_len = if env.quick() { 5 } else { 7 };
    let total = util::n_strings(9, max_len);
    let per = 2048usize;
    let r2 = par(total.div_ceil(per), |c, rec| {
        let mut idx = Vec::new();
        for n in c * per..((c + 1) * per).min(total) {
            util::nth_seq(9, n, &mut idx);
            check(env, &gen::string_from_indices(&alpha, &idx), rec);
        }
    });
    rec.merge(r2);
    rec.exhaustive(format!("all strings up to length {} over {{SP, A0, a, E9, A8, FDFA, 301, FF21, 1F600}}", max_len));
    let n = env.n(2_000_000, 60_000_000);
    let per = 1000usize;
    let r3 = par(n.div_ceil(per), |c, rec| {
        let mut rng = Rng::stream(env.seed, 0x06_0000 + c as u64);
        for j in 0..per {
            let s = nickname_input(env, &mut rng, j);
            check(env, &s, rec);
        }
    });
    rec.merge(r3);
    let n_long = env.n(15_000, 500_000);
    let per = 200usize;
    let r4 = par(n_long.div_ceil(per), |c, rec| {
        let mut rng = Rng::stream(env.seed, 0x06_C000 + c as u64);
        super::hostile::drive(&mut rng, per, 65536, |rng| { let j = rng.below(8); let s = nickname_input(env, rng, j); s.chars().take(6).collect() }, |s| check(env, s, rec));
    });
    rec.merge(r4);
    // block-structured strings (16-byte ASCII blocks, multi-byte runs, spaces of every kind)
    super::hostile::macro_enum(&super::hostile::SPACE_MACROS, if env.quick() { 4 } else { 5 }, |s| check(env, s, &mut rec));
    // runs of combining marks of every length up to 70 after a base, with and without a compatibility character
    for k in 0..=70usize {
        for m in ['\u{301}', '\u{334}', '\u{5B8}'] {
            let run: String = std::iter::repeat(m).take(k).collect();
            for f in [format!("a{}", run), format!("x{} \u{2163}", run), format!("\u{FF21}{}\u{A0}", run)] {
                check(env, &f, &mut rec);
            }
        }
    }
    check(env, "", &mut rec);
    rec
}

pub fn replay(env: &Env, _op: &str, case: &str) -> Rec {
    let mut rec = Rec::new();
    match super::kv_get_last(case, "label").and_then(util::unesc) {
        Some(s) => check(env, &s, &mut rec),
        None => rec.note("HARNESS-ERROR: cannot parse replay case"),
    }
    rec
}
