//! C02 - a string class accepts a label iff every code point is valid in context

use crate::api::{self, Class, Dp, Out, TableClass, ALL_DP, E};
use crate::gen;
use crate::refmodel;
use crate::util::{self, par, Rec, Rng, Witness};
use crate::Env;

#[derive(Clone)]
pub enum Cls {
    Std(Class),
    Table(Vec<(u32, Dp)>, Dp),
}

impl Cls {
    fn name(&self) -> String {
        match self {
            Cls::Std(c) => format!("{:?}", c),
            Cls::Table(t, d) => format!(
                "table[{}|{:?}]",
                t.iter().map(|(c, v)| format!("{:X}:{}", c, dp_code(*v))).collect::<Vec<_>>().join(","),
                d
            ),
        }
    }
}

fn dp_code(d: Dp) -> usize {
    ALL_DP.iter().position(|x| *x == d).unwrap()
}

fn bucket(pos: usize) -> &'static str {
    match pos {
        0 => "pos0",
        1 => "pos1",
        2..=3 => "pos2-3",
        _ => "pos4+",
    }
}

pub fn check_label(env: &Env, cls: &Cls, s: &str, rec: &mut Rec) {
    let d6 = env.d6();
    let (got, want) = match cls {
        Cls::Std(c) => {
            let got = api::class_allows(*c, s);
            // the values are owned by C14: ask the class under test
            let want = refmodel::allows(
                d6,
                |ch| match api::class_value_char(*c, ch) {
                    Out::Ok(v) => v,
                    _ => Dp::Unassigned,
                },
                s,
            );
            (got, want)
        }
        Cls::Table(t, d) => {
            let tc = TableClass { table: t.clone(), default: *d };
            let got = api::table_allows(&tc, s);
            let lookup = |ch: char| t.iter().find(|(c, _)| *c == ch as u32).map(|(_, v)| *v).unwrap_or(*d);
            (got, refmodel::allows(d6, lookup, s))
        }
    };
    rec.eval();
    // histogram: what decided
    let class = match &want[0] {
        Out::Ok(()) => {
            let has_ctx = s.chars().any(|c| refmodel::rule_of(c as u32).is_some());
            if has_ctx { "accepted:with-contextual".to_string() } else { "accepted:plain".to_string() }
        }
        Out::Err(E::Bad(_, pos, v)) => format!("rejected:{:?}:{}{}", v, bucket(*pos), if want.len() > 1 { ":edge" } else { "" }),
        Out::Err(E::Undefined) => "rejected:undefined-context".to_string(),
        Out::Err(E::MissingRule(_, pos, _)) => format!("rejected:missing-rule:{}", bucket(*pos)),
        Out::Err(e) => format!("rejected:{:?}", e),
        Out::Panic(_) => unreachable!(),
    };
    if class != "accepted:plain" {
        rec.nontrivial(&class, &(cls.name(), s), || format!("{} allows(\"{}\")", cls.name(), util::esc(s)));
    } else {
        rec.count(&class);
    }
    let case = || format!("class={};label={}", cls.name(), util::esc(s));
    if !want.contains(&got) {
        rec.violation(
            "allows-differs-from-per-code-point-reference",
            Witness {
                op: "StringClass::allows".into(),
                case: case(),
                expected: want.iter().map(api::show).collect::<Vec<_>>().join(" or "),
                observed: api::show(&got),
            },
        );
    }
    if let Cls::Std(_) = cls {
        if matches!(got, Out::Err(E::MissingRule(..)) | Out::Err(E::CtxNotApplicable(..))) {
            rec.violation(
                "standard-class-reports-missing-or-inapplicable-context-rule",
                Witness { op: "StringClass::allows".into(), case: case(), expected: "never".into(), observed: api::show(&got) },
            );
        }
    }
}

/// alphabet with a character of every derived value, every contextual code
/// point, enabling and disabling neighbours, 1-4 byte encodings
const ALPHA: [char; 22] = [
    'a', 'l', '\u{E9}', '\u{6F22}', '\u{20000}', // PVALID 1,1,2,3,4 bytes
    ' ', '!', // ID_DIS / FREE_PVAL
    '\u{0}', '\u{378}', // DISALLOWED, UNASSIGNED
    '\u{200C}', '\u{200D}', '\u{B7}', '\u{375}', '\u{5F3}', '\u{30FB}', '\u{660}', '\u{6F0}', // contextual
    '\u{94D}', '\u{628}', '\u{64B}', '\u{3B1}', '\u{5D0}', // virama, D, T, Greek, Hebrew
];

/// 12 symbols for user-supplied classes (with and without a registered rule)
const TALPHA: [char; 12] = ['a', 'b', 'c', 'd', 'l', '\u{E9}', '\u{1F600}', '\u{200D}', '\u{94D}', '\u{B7}', '\u{375}', '\u{3B1}'];

fn random_table(rng: &mut Rng) -> Cls {
    let mut t = Vec::new();
    for c in TALPHA {
        // bias: contextual values reasonably often, on chars with and without a rule
        let v = match rng.below(10) {
            0..=2 => Dp::PValid,
            3 => Dp::SpecClassPval,
            4 => Dp::SpecClassDis,
            5 => Dp::ContextJ,
            6 => Dp::ContextO,
            7 => Dp::Disallowed,
            8 => Dp::Unassigned,
            _ => *rng.pick(&ALL_DP),
        };
        t.push((c as u32, v));
    }
    Cls::Table(t, *rng.pick(&[Dp::Unassigned, Dp::Disallowed, Dp::PValid]))
}

pub fn run(env: &Env) -> Rec {
    let mut rec = Rec::new();
    // (1) exhaustive labels over ALPHA for the two standard classes
    let max_len = if env.quick() { 5 } else { 6 };
    let k = ALPHA.len();
    let total = util::n_strings(k, max_len);
    let per = 4096usize;
    let r1 = par(total.div_ceil(per), |c, rec| {
        let mut idx = Vec::new();
        for n in c * per..((c + 1) * per).min(total) {
            util::nth_seq(k, n, &mut idx);
            let s = gen::string_from_indices(&ALPHA, &idx);
            check_label(env, &Cls::Std(Class::Identifier), &s, rec);
            check_label(env, &Cls::Std(Class::Freeform), &s, rec);
        }
    });
    rec.merge(r1);
    rec.exhaustive(format!("all labels up to length {} over a {}-symbol alphabet (every derived value, every contextual code point, enabling/disabling neighbours, 1-4 byte characters) x both standard classes", max_len, k));

    // (1b) every Unicode scalar value: alone, after a letter, and next to the code points that share its
    // low 16 bits (what a narrowed cache key or table index would confuse)
    let chunk = 0x400usize;
    let r1b = par(crate::ucd::NCP / chunk, |i, rec| {
        let mut s = String::new();
        for cp in (i * chunk) as u32..((i + 1) * chunk) as u32 {
            let c = match char::from_u32(cp) {
                Some(c) => c,
                None => continue,
            };
            let mut labels: Vec<String> = vec![c.to_string(), format!("a{}", c)];
            for k in 1..=2u32 {
                if let Some(d) = char::from_u32(cp ^ (k << 16)) {
                    labels.push(format!("{}{}", d, c));
                    labels.push(format!("{}{}", c, d));
                }
            }
            if let Some(d) = char::from_u32(cp & 0xFFFF) {
                if d != c {
                    labels.push(format!("{}x{}", d, c));
                }
            }
            // c as the neighbour / label-mate that each context rule inspects
            labels.push(format!("{}\u{30FB}", c));
            labels.push(format!("\u{30FB}{}", c));
            labels.push(format!("{}\u{200D}", c));
            labels.push(format!("\u{628}\u{200C}{}", c));
            labels.push(format!("{}\u{200C}\u{628}", c));
            labels.push(format!("\u{628}{}\u{200C}\u{628}", c));
            labels.push(format!("\u{375}{}", c));
            labels.push(format!("{}\u{5F3}", c));
            labels.push(format!("l\u{B7}{}", c));
            labels.push(format!("\u{660}{}", c));
            labels.push(format!("{}\u{6F0}", c));
            for l in &labels {
                s.clear();
                s.push_str(l);
                check_label(env, &Cls::Std(Class::Identifier), &s, rec);
                check_label(env, &Cls::Std(Class::Freeform), &s, rec);
            }
        }
    });
    rec.merge(r1b);
    rec.exhaustive("every Unicode scalar value c as c, a c, and paired in both orders with c^0x10000, c^0x20000 and its low-16-bit alias, both standard classes");

    // (2) user-supplied table classes: random assignments x exhaustive short labels + random labels
    let n_tables = env.n(3000, 60_000);
    let tk = TALPHA.len();
    let tl = util::n_strings(tk, 3);
    let r2 = par(n_tables, |c, rec| {
        let mut rng = Rng::stream(env.seed, 0x02_0000 + c as u64);
        let cls = if c < 7 {
            // the seven constant assignments with the two rule-less/ruled contextual values always included
            Cls::Table(TALPHA.iter().map(|ch| (*ch as u32, ALL_DP[c])).collect(), Dp::Unassigned)
        } else {
            random_table(&mut rng)
        };
        let mut idx = Vec::new();
        for n in 0..tl {
            util::nth_seq(tk, n, &mut idx);
            let s = gen::string_from_indices(&TALPHA, &idx);
            check_label(env, &cls, &s, rec);
        }
        for _ in 0..200 {
            let n = rng.range(4, 9);
            let s: String = (0..n).map(|_| *rng.pick(&TALPHA)).collect();
            check_label(env, &cls, &s, rec);
        }
    });
    rec.merge(r2);

    // (3) constructive contextual labels, single edits, random labels with the first offender at every position
    let n_rand = env.n(1_500_000, 40_000_000);
    let per = 2000usize;
    let r3 = par(n_rand.div_ceil(per), |c, rec| {
        let mut rng = Rng::stream(env.seed, 0x02_8000 + c as u64);
        let p = env.pools();
        for j in 0..per {
            let s = match j % 5 {
                0 => gen::contextual_label(p, &mut rng),
                1 => {
                    let b = gen::contextual_label(p, &mut rng);
                    gen::mutate(p, &mut rng, &b, gen::MIX_HOSTILE)
                }
                2 => {
                    // valid prefix of length k, then an offender, then anything
                    let k = rng.below(16);
                    let mut t = String::new();
                    for _ in 0..k {
                        let kd = *rng.pick(&[gen::Kind::Letter, gen::Kind::AsciiLower, gen::Kind::FourByte, gen::Kind::Letter]);
                        gen::push_kind(p, &mut rng, kd, &mut t);
                    }
                    let kd = *rng.pick(&[
                        gen::Kind::Disallowed,
                        gen::Kind::Unassigned,
                        gen::Kind::Control,
                        gen::Kind::Context,
                        gen::Kind::FreePval,
                        gen::Kind::Zs,
                    ]);
                    gen::push_kind(p, &mut rng, kd, &mut t);
                    for _ in 0..rng.below(4) {
                        gen::push_kind(p, &mut rng, gen::Kind::AnyScalar, &mut t);
                    }
                    t
                }
                3 => gen::random_string(p, &mut rng, gen::MIX_USERNAME, 16),
                _ => gen::random_string(p, &mut rng, gen::MIX_HOSTILE, 16),
            };
            check_label(env, &Cls::Std(Class::Identifier), &s, rec);
            check_label(env, &Cls::Std(Class::Freeform), &s, rec);
        }
    });
    rec.merge(r3);
    // (3b) ZWNJ between runs of k and m transparent marks (k, m up to 70): acceptance must follow the rule
    // however long the runs are
    for k in 0..=70usize {
        for m in [0usize, 1, 2, 29, 30, 31, 32, 33, 63, 64, 65, 70] {
            for (left, right) in [('\u{628}', '\u{628}'), ('\u{628}', 'a'), ('a', '\u{627}'), ('\u{626}', '\u{626}')] {
                let mut s = String::new();
                s.push(left);
                for _ in 0..k {
                    s.push('\u{64E}');
                }
                s.push('\u{200C}');
                for _ in 0..m {
                    s.push('\u{64E}');
                }
                s.push(right);
                check_label(env, &Cls::Std(Class::Identifier), &s, &mut rec);
                check_label(env, &Cls::Std(Class::Freeform), &s, &mut rec);
                let t: String = s.chars().rev().collect();
                check_label(env, &Cls::Std(Class::Identifier), &t, &mut rec);
            }
        }
    }
    // (4) long labels: offender / contextual character at and around power-of-two byte offsets,
    // same-length variants in one reused buffer
    let n_long = env.n(20_000, 600_000);
    let per = 200usize;
    let r4 = par(n_long.div_ceil(per), |c, rec| {
        let mut rng = Rng::stream(env.seed, 0x02_C000 + c as u64);
        let p = env.pools();
        super::hostile::drive(
            &mut rng,
            per,
            65536,
            |rng| match rng.below(4) {
                0 => gen::contextual_label(p, rng),
                1 => {
                    let mut t = String::new();
                    let k = *rng.pick(&[gen::Kind::Disallowed, gen::Kind::Unassigned, gen::Kind::Context, gen::Kind::Zs, gen::Kind::FreePval]);
                    gen::push_kind(p, rng, k, &mut t);
                    t
                }
                2 => gen::random_string(p, rng, gen::MIX_USERNAME, 4),
                _ => String::new(),
            },
            |s| {
                check_label(env, &Cls::Std(Class::Identifier), s, rec);
                check_label(env, &Cls::Std(Class::Freeform), s, rec);
            },
        );
    });
    rec.merge(r4);
    rec
}

pub fn replay(env: &Env, _op: &str, case: &str) -> Rec {
    let mut rec = Rec::new();
    let label = super::kv_get_last(case, "label").and_then(util::unesc);
    let cls = super::kv_get(case, "class").and_then(|c| match c {
        "Identifier" => Some(Cls::Std(Class::Identifier)),
        "Freeform" => Some(Cls::Std(Class::Freeform)),
        t if t.starts_with("table[") => {
            let inner = t.trim_start_matches("table[").trim_end_matches(']');
            let (tab, def) = inner.split_once('|')?;
            let mut v = Vec::new();
            for e in tab.split(',') {
                let (c, d) = e.split_once(':')?;
                v.push((u32::from_str_radix(c, 16).ok()?, ALL_DP[d.parse::<usize>().ok()?]));
            }
            let d = ALL_DP.iter().find(|x| format!("{:?}", x) == def)?;
            Some(Cls::Table(v, *d))
        }
        _ => None,
    });
    match (label, cls) {
        (Some(s), Some(c)) => check_label(env, &c, &s, &mut rec),
        _ => rec.note("HARNESS-ERROR: cannot parse replay case"),
    }
    rec
}
