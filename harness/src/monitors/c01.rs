//! C01 - every public operation returns; no input can make it panic

use crate::api::{self, Class, Dp, Out, Prof, TableClass, ALL_ARGFORMS, ALL_CLASS, ALL_PROF, ALL_RULES};
use crate::gen;
use crate::ucd::NCP;
use crate::util::{self, par, Rec, Rng, Witness};
use crate::Env;

fn flag<T>(rec: &mut Rec, op: &str, case: &dyn Fn() -> String, r: &Out<T>) {
    rec.eval();
    if let Out::Panic(m) = r {
        rec.violation(
            &format!("panic:{}", op),
            Witness { op: op.to_string(), case: case(), expected: "returns Ok or a typed error".into(), observed: format!("PANIC {}", m) },
        );
    }
}

fn positions(len: usize, rng: &mut Rng, long: bool) -> Vec<usize> {
    let mut v: Vec<usize> = if long { vec![0, 1, len / 2, len.saturating_sub(1)] } else { (0..=len + 2).collect() };
    v.extend([usize::MAX, usize::MAX - 1, isize::MAX as usize, (isize::MAX as usize) + 1, len.wrapping_add(usize::MAX / 2)]);
    v.push(rng.next() as usize);
    v
}

/// every public string operation on `s`
pub fn all_ops(env: &Env, s: &str, other: &str, rec: &mut Rec, rng: &mut Rng) {
    let _ = env;
    let nchars = s.chars().count();
    let long = nchars > 64;
    let case = || format!("label={}", if s.len() > 400 { format!("<{} chars, seed-generated> {}", nchars, util::esc(&s.chars().take(40).collect::<String>())) } else { util::esc(s) });
    for c in ALL_CLASS {
        flag(rec, &format!("{:?}::allows", c), &case, &api::class_allows(c, s));
        flag(rec, &format!("{:?}::allows+Display", c), &case, &api::allows_display(c, s));
    }
    let tc = TableClass { table: vec![(0x61, Dp::ContextJ), (0x200D, Dp::ContextJ), (0xB7, Dp::ContextO), (0x20, Dp::ContextO), (0xE9, Dp::SpecClassPval)], default: Dp::PValid };
    flag(rec, "TableClass::allows", &case, &api::table_allows(&tc, s));
    for pos in positions(nchars, rng, long) {
        for idx in 0..8 {
            let r = api::ctx_rule(idx, s, pos);
            flag(rec, &format!("context::rule_{}", api::RULE_NAMES[idx]), &|| format!("pos={};{}", pos, case()), &r);
        }
        if let Some(c) = s.chars().nth(pos.min(nchars.saturating_sub(1))) {
            let r = api::ctx_registry(c as u32, s, pos);
            flag(rec, "context::get_context_rule+call", &|| format!("pos={};{}", pos, case()), &r);
        }
    }
    for p in ALL_PROF {
        for k in ALL_RULES {
            flag(rec, &format!("{}::{:?}_rule", p.name(), k), &case, &api::rule(p, k, s));
        }
        flag(rec, &format!("{}::prepare", p.name()), &case, &api::prepare(p, s));
        flag(rec, &format!("{}::enforce", p.name()), &case, &api::enforce(p, s));
        flag(rec, &format!("{}::enforce+Display", p.name()), &case, &api::enforce_display(p, s));
        flag(rec, &format!("{}::compare(s,s)", p.name()), &case, &api::compare(p, s, s));
        flag(rec, &format!("{}::compare(s,t)", p.name()), &|| format!("other={};{}", util::esc(other).replace(';', "\\u{3B}"), case()), &api::compare(p, s, other));
        flag(rec, &format!("{}::compare(t,s)", p.name()), &|| format!("other={};{}", util::esc(other).replace(';', "\\u{3B}"), case()), &api::compare(p, other, s));
        flag(rec, &format!("{}::prepare(static)", p.name()), &case, &api::s_prepare(p, s));
        flag(rec, &format!("{}::enforce(static)", p.name()), &case, &api::s_enforce(p, s));
        flag(rec, &format!("{}::compare(static)", p.name()), &case, &api::s_compare(p, s, other));
        if !long {
            for f in ALL_ARGFORMS {
                flag(rec, &format!("{}::enforce({:?})", p.name(), f), &case, &api::fresh_call(p, true, s, f));
            }
        } else {
            flag(rec, &format!("{}::enforce(String)", p.name()), &case, &api::fresh_call(p, true, s, api::ArgForm::String));
        }
        for k in ALL_RULES {
            flag(rec, &format!("{}::{:?}_rule(String)", p.name(), k), &case, &api::rule_owned(p, k, s));
        }
    }
    flag(rec, "profile::stabilize(nickname rules)", &case, &api::stabilize_with_rules(s));
    if !long {
        for kind in 0..6u8 {
            for k in 1..=5usize {
                if kind != 3 && k > 1 {
                    break;
                }
                flag(rec, &format!("profile::stabilize(synthetic rule {})", kind), &|| format!("kind={};k={};{}", kind, k, case()), &api::stabilize_synthetic(s, kind, k));
            }
        }
    }
    let multibyte = s.chars().any(|c| c.len_utf8() > 1);
    if multibyte {
        let class = match nchars {
            0..=3 => "multibyte-input:1-3-chars",
            4..=8 => "multibyte-input:4-8-chars",
            9..=64 => "multibyte-input:9-64-chars",
            _ => "multibyte-input:long",
        };
        rec.nontrivial(class, &s, || util::esc(&s.chars().take(60).collect::<String>()));
    } else {
        rec.count("ascii-or-empty-input");
    }
}

fn all_cp_ops(cp: u32, rec: &mut Rec) {
    let case = || format!("cp={:X}", cp);
    for c in ALL_CLASS {
        flag(rec, &format!("{:?}::get_value_from_codepoint", c), &case, &api::class_value_cp(c, cp));
        if let Some(ch) = char::from_u32(cp) {
            flag(rec, &format!("{:?}::get_value_from_char", c), &case, &api::class_value_char(c, ch));
        }
    }
    flag(rec, "context::get_context_rule", &case, &api::ctx_registered(cp));
    let label = char::from_u32(cp).map(|c| c.to_string()).unwrap_or_else(|| "x".to_string());
    flag(rec, "context::get_context_rule+call", &case, &api::ctx_registry(cp, &label, 0));
    flag(rec, "Codepoints comparisons/Display", &case, &api::codepoints_probe(cp, cp.wrapping_add(3).max(cp), cp ^ 1));
    if cp as usize >= NCP || (0xD800..0xE000).contains(&cp) {
        rec.nontrivial("non-scalar-code-point-argument", &cp, || format!("{:#X}", cp));
    }
}

pub fn run(env: &Env) -> Rec {
    let mut rec = Rec::new();
    // (a) every u32 that is a code point, surrogates, boundary and random values above
    let chunk = 0x1000usize;
    let ra = par(NCP / chunk, |i, rec| {
        for cp in (i * chunk) as u32..((i + 1) * chunk) as u32 {
            all_cp_ops(cp, rec);
        }
    });
    rec.merge(ra);
    rec.exhaustive("every value 0..=0x10FFFF (incl. surrogates) through both class entry points, the rule registry and Codepoints comparisons");
    let mut b: Vec<u32> = vec![0x110000, 0x110001, u32::MAX, u32::MAX - 1, 0x7FFF_FFFF, 0x8000_0000];
    for sh in 16..32 {
        b.extend([1u32 << sh, (1u32 << sh) - 1, (1u32 << sh) + 1]);
    }
    for cp in b {
        all_cp_ops(cp, &mut rec);
    }
    let n_rand = env.n(500_000, 5_000_000);
    let rr = par(n_rand / 10_000, |i, rec| {
        let mut rng = Rng::stream(env.seed, 0x01_0000 + i as u64);
        for _ in 0..10_000 {
            all_cp_ops(0x110000 + (rng.next() % (u32::MAX as u64 - 0x110000 + 1)) as u32, rec);
        }
    });
    rec.merge(rr);
    // (a2) every Unicode scalar value as a one-character string (and after a letter) through every Rules method,
    // prepare and enforce of the four profiles and both string classes
    let ra2 = par(NCP / 0x400, |i, rec| {
        let mut s = String::new();
        for cp in (i * 0x400) as u32..((i + 1) * 0x400) as u32 {
            let c = match char::from_u32(cp) {
                Some(c) => c,
                None => continue,
            };
            // contexts: c; a c; alef c bet (a right-to-left label around c: the Bidi rule's rejection paths for
            // every class); fullwidth-A c (c in the copy loop behind a mapped character); c alef
            for ctxn in 0..5u8 {
                let with_prefix = ctxn != 0;
                s.clear();
                match ctxn {
                    0 => s.push(c),
                    1 => {
                        s.push('a');
                        s.push(c)
                    }
                    2 => {
                        s.push('\u{5D0}');
                        s.push(c);
                        s.push('\u{5D1}')
                    }
                    3 => {
                        s.push('\u{FF21}');
                        s.push(c)
                    }
                    _ => {
                        s.push(c);
                        s.push('\u{5D0}')
                    }
                }
                let case = || format!("label={}", util::esc(&s));
                for p in ALL_PROF {
                    for k in ALL_RULES {
                        flag(rec, &format!("{}::{:?}_rule", p.name(), k), &case, &api::rule(p, k, &s));
                    }
                    flag(rec, &format!("{}::enforce", p.name()), &case, &api::enforce(p, &s));
                    if !with_prefix {
                        flag(rec, &format!("{}::prepare", p.name()), &case, &api::prepare(p, &s));
                    }
                }
                if ctxn >= 2 {
                    continue;
                }
                for cl in ALL_CLASS {
                    flag(rec, &format!("{:?}::allows", cl), &case, &api::class_allows(cl, &s));
                }
            }
        }
    });
    rec.merge(ra2);
    rec.exhaustive("every Unicode scalar value c as c, a c, alef c bet, fullwidth-A c and c alef through all five Rules methods and enforce of the four profiles (c and a c also through prepare and allows of both classes)");
    // (b) exhaustive multi-byte strings
    let max_len = if env.quick() { 5 } else { 6 };
    let k = gen::ALPHA9.len();
    let total = util::n_strings(k, max_len);
    let per = 512usize;
    let rb = par(total.div_ceil(per), |c, rec| {
        let mut idx = Vec::new();
        let mut rng = Rng::stream(env.seed, 0x01_4000 + c as u64);
        for n in c * per..((c + 1) * per).min(total) {
            util::nth_seq(k, n, &mut idx);
            let s = gen::string_from_indices(&gen::ALPHA9, &idx);
            let mut other = idx.clone();
            other.reverse();
            let o = gen::string_from_indices(&gen::ALPHA9, &other);
            all_ops(env, &s, &o, rec, &mut rng);
        }
    });
    rec.merge(rb);
    rec.exhaustive(format!("all strings up to length {} over the 9-symbol 1-4 byte alphabet through every public string operation", max_len));
    // nickname-relevant deeper enumeration (space bookkeeping is where slicing happens)
    let alpha7: [char; 7] = [' ', '\u{A0}', '\u{3000}', 'a', '\u{E9}', '\u{20AC}', '\u{1F600}'];
    let ml = if env.quick() { 7 } else { 9 };
    let total7 = util::n_strings(7, ml);
    let rb2 = par(total7.div_ceil(4096), |c, rec| {
        let mut idx = Vec::new();
        for n in c * 4096..((c + 1) * 4096).min(total7) {
            util::nth_seq(7, n, &mut idx);
            let s = gen::string_from_indices(&alpha7, &idx);
            let case = || format!("label={}", util::esc(&s));
            flag(rec, "Nickname::enforce", &case, &api::enforce(Prof::Nick, &s));
            flag(rec, "Nickname::Additional_rule", &case, &api::rule(Prof::Nick, api::RuleK::Additional, &s));
            flag(rec, "OpaqueString::enforce", &case, &api::enforce(Prof::Opaque, &s));
            flag(rec, "UsernameCaseMapped::enforce", &case, &api::enforce(Prof::Ucm, &s));
            if s.chars().any(|c| c.len_utf8() > 1) {
                rec.nontrivial("multibyte-input:space-enumeration", &s, || util::esc(&s));
            }
        }
    });
    rec.merge(rb2);
    rec.exhaustive(format!("all strings up to length {} over {{SP,A0,3000,a,E9,20AC,1F600}} through the enforce operations and the nickname space rule", ml));
    // random hostile strings
    let n = env.n(300_000, 6_000_000);
    let per = 500usize;
    let rc = par(n.div_ceil(per), |c, rec| {
        let mut rng = Rng::stream(env.seed, 0x01_8000 + c as u64);
        let p = env.pools();
        let mut prev = String::from("a");
        for j in 0..per {
            let s = match j % 5 {
                0 => gen::random_string(p, &mut rng, gen::MIX_HOSTILE, 24),
                1 => gen::random_string(p, &mut rng, gen::MIX_FREEFORM, 24),
                2 => gen::random_string(p, &mut rng, gen::MIX_USERNAME, 24),
                3 => {
                    let b = gen::contextual_label(p, &mut rng);
                    gen::mutate(p, &mut rng, &b, gen::MIX_HOSTILE)
                }
                _ => env.var().variant(p, &mut rng, &prev),
            };
            all_ops(env, &s, &prev, rec, &mut rng);
            prev = s;
        }
    });
    rec.merge(rc);
    // long inputs with the interesting characters at and around power-of-two byte offsets (chunked fast
    // paths, offsets kept in narrow integers), same-length variants in one reused buffer
    let n_hostile = env.n(6_000, 300_000);
    let per = 100usize;
    let rh = par(n_hostile.div_ceil(per), |c, rec| {
        let mut rng = Rng::stream(env.seed, 0x01_C000 + c as u64);
        let mut rng2 = Rng::stream(env.seed, 0x01_D000 + c as u64);
        let p = env.pools();
        super::hostile::drive(
            &mut rng,
            per,
            65536,
            |rng| match rng.below(6) {
                0 => gen::contextual_label(p, rng),
                1 => {
                    let mut t = String::new();
                    for _ in 0..rng.range(1, 3) {
                        t.push(if rng.chance(1, 2) { ' ' } else { *rng.pick(&p.zs) });
                    }
                    t
                }
                2 => "\u{65E5}\u{672C}\u{8A9E} ".to_string(),
                3 => gen::SPECIAL_WORDS[rng.below(gen::SPECIAL_WORDS.len())].to_string(),
                4 => gen::random_string(p, rng, gen::MIX_HOSTILE, 4),
                _ => gen::random_string(p, rng, gen::MIX_FREEFORM, 5),
            },
            |s| all_ops(env, s, "x", rec, &mut rng2),
        );
    });
    rec.merge(rh);
    // block-structured strings through the space-sensitive operations
    {
        let ml = if env.quick() { 5 } else { 6 };
        let k = super::hostile::SPACE_MACROS.len();
        let total = util::n_strings(k, ml);
        let per = 2048usize;
        let rm = par(total.div_ceil(per), |c, rec| {
            let mut idx = Vec::new();
            let mut s = String::new();
            for n in c * per..((c + 1) * per).min(total) {
                util::nth_seq(k, n, &mut idx);
                s.clear();
                for i in &idx {
                    s.push_str(super::hostile::SPACE_MACROS[*i]);
                }
                let case = || format!("label={}", util::esc(&s));
                flag(rec, "Nickname::enforce", &case, &api::enforce(Prof::Nick, &s));
                flag(rec, "Nickname::compare(s,s)", &case, &api::compare(Prof::Nick, &s, &s));
                flag(rec, "Nickname::Additional_rule(String)", &case, &api::rule_owned(Prof::Nick, api::RuleK::Additional, &s));
                flag(rec, "OpaqueString::enforce(String)", &case, &api::fresh_call(Prof::Opaque, true, &s, api::ArgForm::String));
                flag(rec, "UsernameCaseMapped::enforce", &case, &api::enforce(Prof::Ucm, &s));
                if s.len() > 16 {
                    rec.nontrivial("multibyte-input:block-structured", &s, || util::esc(&s));
                }
            }
        });
        rec.merge(rm);
        rec.exhaustive(format!("all sequences of up to {} block-level symbols through the Nickname / OpaqueString / username enforce paths", ml));
    }
    // a few very long strings
    let n_long = env.n(12, 80);
    let rl = par(n_long, |c, rec| {
        let mut rng = Rng::stream(env.seed, 0x01_F000 + c as u64);
        let p = env.pools();
        let target = if c % 2 == 0 { 10_000 } else { 100_000 };
        let mix = [gen::MIX_FREEFORM, gen::MIX_USERNAME, gen::MIX_HOSTILE][c % 3];
        let mut s = String::new();
        let mut n = 0;
        while n < target {
            let k = gen::pick_kind(&mut rng, mix);
            // keep long strings mostly acceptable so that the deep stages are reached
            let k = if c % 3 != 2 && matches!(k, gen::Kind::Disallowed | gen::Kind::Unassigned | gen::Kind::Control | gen::Kind::Context | gen::Kind::AnyScalar) { gen::Kind::Letter } else { k };
            gen::push_kind(p, &mut rng, k, &mut s);
            n += 1;
        }
        let o = s.to_uppercase();
        all_ops(env, &s, &o, rec, &mut rng);
    });
    rec.merge(rl);
    for s in ["", " ", "\u{E9} ", " \u{E9}", "\u{1F600}  ", "\u{A0}", "\u{200D}", "\u{B7}"] {
        let mut rng = Rng::new(1);
        all_ops(env, s, "", &mut rec, &mut rng);
    }
    rec
}

pub fn replay(env: &Env, op: &str, case: &str) -> Rec {
    let mut rec = Rec::new();
    let mut rng = Rng::new(env.seed);
    if let Some(cp) = super::kv_get(case, "cp").and_then(|s| u32::from_str_radix(s, 16).ok()) {
        all_cp_ops(cp, &mut rec);
        return rec;
    }
    match super::kv_get_last(case, "label").and_then(util::unesc) {
        Some(s) => {
            let other = super::kv_get(case, "other").and_then(util::unesc).unwrap_or_default();
            all_ops(env, &s, &other, &mut rec, &mut rng);
            if let Some(pos) = super::kv_get(case, "pos").and_then(|s| s.parse::<usize>().ok()) {
                for idx in 0..8 {
                    flag(&mut rec, &format!("context::rule_{}", api::RULE_NAMES[idx]), &|| case.to_string(), &api::ctx_rule(idx, &s, pos));
                }
            }
        }
        None => rec.note(format!("HARNESS-ERROR: cannot replay '{}' (long generated inputs are reproduced by re-running with the recorded seed)", op)),
    }
    let _ = Class::Identifier;
    rec
}
