//! racer - exercises the static fast-invocation functions from many threads
//! starting with the very first call into the library (C16, phases B and C),
//! and is the program run under ThreadSanitizer and Miri.
//!
//!   racer baseline --cases F --out B          (every case in its OWN fresh process: no call history at all)
//!   racer one --op O --profile P --a A --b B   (one call through a fresh instance; prints the escaped result)
//!   racer run      --cases F --expect B --threads N --rounds R --seed S
//!   racer regime   --cases F --expect B --seed S   (single thread: long homogeneous workloads - all ASCII, all CJK,
//!                                                   all right-to-left, errors only, ... - each followed by the whole case
//!                                                   list; an adaptive mode that switches on after N calls shows here)
//!   racer selftest --threads N --rounds R --seed S
//!
//! Nothing touches sancane/precis before the worker threads pass the barrier.

#[path = "../rawfmt.rs"]
mod rawfmt;

use std::sync::atomic::{AtomicU64, Ordering};
use std::sync::{Arc, Barrier};

static RELEASE: AtomicU64 = AtomicU64::new(0);
use std::time::Instant;

struct Case {
    op: String,
    profile: String,
    a: String,
    b: String,
}

fn next(x: &mut u64) -> u64 {
    *x = x.wrapping_add(0x9E37_79B9_7F4A_7C15);
    let mut z = *x;
    z = (z ^ (z >> 30)).wrapping_mul(0xBF58_476D_1CE4_E5B9);
    z = (z ^ (z >> 27)).wrapping_mul(0x94D0_49BB_1331_11EB);
    z ^ (z >> 31)
}

fn builtin_cases() -> Vec<Case> {
    let inputs = [
        "Guybrush", "\u{FF21}lice", "a\u{308}b", "\u{5D0}\u{5D1}1", "  Foo   Bar ", "\u{1F88}x", "", "bad\u{0}", "\u{E9} ", "\u{2163}",
        "\u{13A0}", "l\u{B7}l",
    ];
    let mut v = Vec::new();
    for (i, a) in inputs.iter().enumerate() {
        for p in rawfmt::PROFILES {
            for op in rawfmt::OPS {
                v.push(Case { op: op.to_string(), profile: p.to_string(), a: a.to_string(), b: inputs[(i + 1) % inputs.len()].to_string() });
            }
        }
    }
    v
}

fn read_cases(path: &str) -> Vec<Case> {
    let text = std::fs::read_to_string(path).expect("cases file");
    text.lines()
        .filter(|l| !l.is_empty())
        .map(|l| {
            let f: Vec<&str> = l.split('\t').collect();
            Case {
                op: f[0].to_string(),
                profile: f[1].to_string(),
                a: rawfmt::unesc(f[2]).expect("escape"),
                b: rawfmt::unesc(f.get(3).copied().unwrap_or("")).expect("escape"),
            }
        })
        .collect()
}

fn arg(args: &[String], name: &str) -> Option<String> {
    args.iter().position(|a| a == name).and_then(|i| args.get(i + 1).cloned())
}

fn main() {
    let args: Vec<String> = std::env::args().collect();
    let mode = args.get(1).map(|s| s.as_str()).unwrap_or("");
    std::panic::set_hook(Box::new(|_| {}));
    match mode {
        "one" => {
            let a = rawfmt::unesc(&arg(&args, "--a").unwrap_or_default()).expect("escape");
            let b = rawfmt::unesc(&arg(&args, "--b").unwrap_or_default()).expect("escape");
            let r = rawfmt::raw(&arg(&args, "--profile").expect("--profile"), &arg(&args, "--op").expect("--op"), &a, &b, false);
            println!("{}", rawfmt::esc(&r));
        }
        "baseline" => {
            let cases = read_cases(&arg(&args, "--cases").expect("--cases"));
            let exe = std::env::current_exe().expect("current_exe");
            let n = cases.len();
            let cases = Arc::new(cases);
            let next = Arc::new(std::sync::atomic::AtomicUsize::new(0));
            let workers = std::thread::available_parallelism().map(|x| x.get()).unwrap_or(4).min(16);
            let mut hs = Vec::new();
            for _ in 0..workers {
                let (cases, next, exe) = (cases.clone(), next.clone(), exe.clone());
                hs.push(std::thread::spawn(move || {
                    let mut out: Vec<(usize, String)> = Vec::new();
                    loop {
                        let i = next.fetch_add(1, Ordering::SeqCst);
                        if i >= cases.len() {
                            break;
                        }
                        let c = &cases[i];
                        // very long arguments do not fit on a command line: those few are evaluated here
                        let line = if c.a.len() + c.b.len() > 60_000 {
                            rawfmt::esc(&rawfmt::raw(&c.profile, &c.op, &c.a, &c.b, false))
                        } else {
                            let o = std::process::Command::new(&exe)
                                .args(["one", "--op", &c.op, "--profile", &c.profile, "--a", &rawfmt::esc(&c.a), "--b", &rawfmt::esc(&c.b)])
                                .output()
                                .expect("spawn");
                            String::from_utf8_lossy(&o.stdout).trim_end_matches('\n').to_string()
                        };
                        out.push((i, line));
                    }
                    out
                }));
            }
            let mut lines = vec![String::new(); n];
            for h in hs {
                for (i, l) in h.join().expect("baseline worker") {
                    lines[i] = l;
                }
            }
            std::fs::write(arg(&args, "--out").expect("--out"), lines.join("\n") + "\n").expect("write");
            println!("RACER baseline cases={} processes={}", n, n);
        }
        "regime" => {
            let cases = read_cases(&arg(&args, "--cases").expect("--cases"));
            let expect: Vec<String> = std::fs::read_to_string(arg(&args, "--expect").expect("--expect"))
                .expect("expect file")
                .lines()
                .map(|l| rawfmt::unesc(l).expect("escape"))
                .collect();
            let seed: u64 = arg(&args, "--seed").and_then(|s| s.parse().ok()).unwrap_or(0);
            let per: usize = arg(&args, "--per-regime").and_then(|s| s.parse().ok()).unwrap_or(3000);
            let mut x = seed ^ 0x5EED;
            let mut calls = 0usize;
            let mut mismatches = 0usize;
            let pick = |x: &mut u64, v: &[char]| v[(next(x) % v.len() as u64) as usize];
            let ascii: Vec<char> = ('a'..='z').chain('A'..='Z').chain('0'..='9').collect();
            let latin: Vec<char> = (0xC0u32..0x17F).filter_map(char::from_u32).filter(|c| c.is_alphabetic()).collect();
            let cjk: Vec<char> = (0x4E00u32..0x4F00).chain(0x3041..0x3090).chain(0x30A1..0x30F0).filter_map(char::from_u32).collect();
            let rtl: Vec<char> = (0x5D0u32..0x5EB).chain(0x627..0x64B).filter_map(char::from_u32).collect();
            let mut order: Vec<usize> = (0..7).collect();
            for i in (1..order.len()).rev() {
                let j = (next(&mut x) % (i as u64 + 1)) as usize;
                order.swap(i, j);
            }
            // --only R: this process sees regime R alone (a cumulative statistic is not diluted by other regimes)
            if let Some(r) = arg(&args, "--only").and_then(|s| s.parse::<usize>().ok()) {
                order = vec![r % 7];
            }
            for &r in &order {
                for _ in 0..per {
                    let n = 3 + (next(&mut x) % 10) as usize;
                    let s: String = match r {
                        0 => (0..n).map(|_| pick(&mut x, &ascii)).collect(),
                        1 => (0..n).map(|k| if k % 4 == 3 { ' ' } else { pick(&mut x, &ascii) }).collect(),
                        2 => (0..n).map(|_| pick(&mut x, &latin)).collect(),
                        3 => (0..n).map(|_| pick(&mut x, &cjk)).collect(),
                        4 => (0..n).map(|_| pick(&mut x, &rtl)).collect(),
                        5 => (0..n).map(|k| if k == 1 { '\u{1}' } else { pick(&mut x, &ascii) }).collect(),
                        _ => (0..n * 12).map(|_| pick(&mut x, &ascii)).collect(),
                    };
                    let p = rawfmt::PROFILES[(next(&mut x) % 4) as usize];
                    let op = rawfmt::OPS[(next(&mut x) % 3) as usize];
                    let _ = rawfmt::raw(p, op, &s, &s, true);
                    calls += 1;
                }
                // the whole case list after this regime
                for (i, c) in cases.iter().enumerate() {
                    let res = rawfmt::raw(&c.profile, &c.op, &c.a, &c.b, true);
                    calls += 1;
                    if res != expect[i] {
                        mismatches += 1;
                        if mismatches <= 10 {
                            println!(
                                "MISMATCH thread=0 regime={} op={} profile={} a={} b={} expected={} observed={}",
                                r, c.op, c.profile, rawfmt::esc(&c.a), rawfmt::esc(&c.b), rawfmt::esc(&expect[i]), rawfmt::esc(&res)
                            );
                        }
                    }
                }
            }
            println!("RACER regime seed={} regimes={} per_regime={} cases={} calls={} mismatches={}", seed, order.len(), per, cases.len(), calls, mismatches);
        }
        "run" | "selftest" => {
            let threads: usize = arg(&args, "--threads").and_then(|s| s.parse().ok()).unwrap_or(8);
            let rounds: usize = arg(&args, "--rounds").and_then(|s| s.parse().ok()).unwrap_or(2);
            let seed: u64 = arg(&args, "--seed").and_then(|s| s.parse().ok()).unwrap_or(0);
            let mut cases = if mode == "run" { read_cases(&arg(&args, "--cases").expect("--cases")) } else { builtin_cases() };
            // an interpreter (Miri) needs a small workload: keep every k-th case
            if let Some(k) = arg(&args, "--every").and_then(|s| s.parse::<usize>().ok()) {
                let k = k.max(1);
                let off = seed as usize % k;
                let mut i = 0;
                cases.retain(|_| {
                    i += 1;
                    (i - 1) % k == off
                });
            }
            let expect: Option<Vec<String>> = if mode == "run" {
                let t = std::fs::read_to_string(arg(&args, "--expect").expect("--expect")).expect("expect file");
                Some(t.lines().map(|l| rawfmt::unesc(l).expect("escape")).collect())
            } else {
                None
            };
            let cases = Arc::new(cases);
            let barrier = Arc::new(Barrier::new(threads));
            // 0 disables the spin (Miri: virtual clock, ThreadSanitizer: keep it cheap)
            // the first F cases of the file are the "first-use corpus": every thread's very first call is one of them
            let first_n: usize = arg(&args, "--first").and_then(|s| s.parse().ok()).unwrap_or(0);
            let spin_us: u64 = arg(&args, "--spin-us").and_then(|s| s.parse().ok()).unwrap_or(400);
            let t0 = Instant::now();
            let mut hs = Vec::new();
            for t in 0..threads {
                let cases = cases.clone();
                let barrier = barrier.clone();
                hs.push(std::thread::spawn(move || {
                    let mut x = seed ^ (t as u64).wrapping_mul(0xA24B_AED4_963E_E407);
                    let n = cases.len();
                    let mut log: Vec<(usize, String, u128, u128)> = Vec::with_capacity(n * rounds);
                    // first call: spread over the four static profiles so that every lazy static sees a first-use race
                    let mut order: Vec<usize> = (0..n).collect();
                    // all threads leave the barrier; the leader publishes a common release instant
                    // and everybody spins to it, so that the first calls into the library start as
                    // close together as the machine allows
                    if barrier.wait().is_leader() {
                        RELEASE.store(t0.elapsed().as_nanos() as u64 + spin_us * 1000 + 1, Ordering::SeqCst);
                    }
                    if spin_us > 0 {
                        let mut rel = 0;
                        while rel == 0 {
                            rel = RELEASE.load(Ordering::SeqCst);
                            std::hint::spin_loop();
                        }
                        while (t0.elapsed().as_nanos() as u64) < rel {
                            std::hint::spin_loop();
                        }
                    }
                    for r in 0..rounds {
                        for i in (1..n).rev() {
                            let j = (next(&mut x) % (i as u64 + 1)) as usize;
                            order.swap(i, j);
                        }
                        if r % 2 == 1 {
                            // input-major round: all operations on one input back to back, in a random
                            // order of profiles (what a cache shared between profiles, or keyed by the
                            // argument only, would confuse)
                            order.sort_by(|x, y| cases[*x].a.cmp(&cases[*y].a));
                            let mut start = 0;
                            while start < n {
                                let mut end = start + 1;
                                while end < n && cases[order[end]].a == cases[order[start]].a {
                                    end += 1;
                                }
                                for i in (start + 1..end).rev() {
                                    let j = start + (next(&mut x) % ((i - start) as u64 + 1)) as usize;
                                    order.swap(i, j);
                                }
                                start = end;
                            }
                        }
                        if r == 0 {
                            if first_n > 0 {
                                // half of the threads start on the same "focus" input of this process (through the four
                                // profiles), the others are spread over the whole first-use corpus
                                let fnn = first_n.min(n);
                                let f = if t % 2 == 0 { ((seed as usize % (fnn / 4).max(1)) * 4 + (t / 2) % 4) % fnn } else { (t.wrapping_mul(7) + seed as usize) % fnn };
                                if let Some(k) = order.iter().position(|i| *i == f) {
                                    order.swap(0, k);
                                }
                            } else {
                                let want = rawfmt::PROFILES[t % 4];
                                if let Some(k) = order.iter().position(|i| cases[*i].profile == want) {
                                    order.swap(0, k);
                                }
                            }
                        }
                        for &i in &order {
                            let c = &cases[i];
                            let s = t0.elapsed().as_nanos();
                            let res = rawfmt::raw(&c.profile, &c.op, &c.a, &c.b, true);
                            let e = t0.elapsed().as_nanos();
                            log.push((i, res, s, e));
                            match next(&mut x) % 8 {
                                0 => std::thread::yield_now(),
                                1 => {
                                    for _ in 0..(next(&mut x) % 200) {
                                        std::hint::spin_loop();
                                    }
                                }
                                _ => {}
                            }
                        }
                    }
                    log
                }));
            }
            let logs: Vec<Vec<(usize, String, u128, u128)>> = hs.into_iter().map(|h| h.join().expect("worker")).collect();
            // offline checker over the recorded per-thread logs
            let expect: Vec<String> = match expect {
                Some(e) => e,
                None => cases.iter().map(|c| rawfmt::raw(&c.profile, &c.op, &c.a, &c.b, false)).collect(),
            };
            let mut calls = 0usize;
            let mut mismatches = 0usize;
            for (t, log) in logs.iter().enumerate() {
                for (i, res, _, _) in log {
                    calls += 1;
                    if *res != expect[*i] {
                        mismatches += 1;
                        if mismatches <= 10 {
                            let c = &cases[*i];
                            println!(
                                "MISMATCH thread={} op={} profile={} a={} b={} expected={} observed={}",
                                t,
                                c.op,
                                c.profile,
                                rawfmt::esc(&c.a),
                                rawfmt::esc(&c.b),
                                rawfmt::esc(&expect[*i]),
                                rawfmt::esc(res)
                            );
                        }
                    }
                }
            }
            // how many threads started their first call before the earliest first call returned
            let first_end = logs.iter().filter_map(|l| l.first().map(|f| f.3)).min().unwrap_or(0);
            let overlap = logs.iter().filter(|l| l.first().map(|f| f.2 < first_end).unwrap_or(false)).count();
            // per profile: threads whose first call on that profile overlapped the earliest such call
            let mut per_profile = Vec::new();
            for p in rawfmt::PROFILES {
                let firsts: Vec<(u128, u128)> = logs
                    .iter()
                    .filter_map(|l| l.iter().find(|r| cases[r.0].profile == p).map(|r| (r.2, r.3)))
                    .collect();
                let fe = firsts.iter().map(|f| f.1).min().unwrap_or(0);
                per_profile.push(firsts.iter().filter(|f| f.0 < fe).count());
            }
            println!(
                "RACER threads={} rounds={} seed={} cases={} calls={} mismatches={} first_call_overlap={} per_profile_first_use_overlap={:?}",
                threads,
                rounds,
                seed,
                cases.len(),
                calls,
                mismatches,
                overlap,
                per_profile
            );
        }
        _ => {
            eprintln!("usage: racer baseline|run|selftest ...");
            std::process::exit(3);
        }
    }
}
