//! miriops - every public operation of the core and profile crates on a small
//! set of hostile inputs; meant to be run under Miri (C01 sanitizer part) so
//! that undefined behaviour in the unsafe code of the dependencies reached
//! through the library (unicode-normalization, tinyvec, lazy_static) is seen.
//!
//!   miriops [--part i/n]

#[path = "../api.rs"]
#[allow(dead_code)]
mod api;
#[path = "../util.rs"]
#[allow(dead_code)]
mod util;

use api::{Out, ALL_ARGFORMS, ALL_CLASS, ALL_PROF, ALL_RULES};

fn main() {
    let args: Vec<String> = std::env::args().collect();
    let (part, parts) = args
        .iter()
        .position(|a| a == "--part")
        .and_then(|i| args.get(i + 1))
        .and_then(|v| v.split_once('/'))
        .map(|(a, b)| (a.parse::<usize>().unwrap_or(0), b.parse::<usize>().unwrap_or(1).max(1)))
        .unwrap_or((0, 1));
    api::install_panic_hook();
    let inputs: Vec<String> = vec![
        "".into(),
        "\u{E9} ".into(),
        " \u{1F600}  a\u{A0}".into(),
        "\u{FF21}\u{30A}lice\u{FF76}\u{FF9E}".into(),
        "\u{1F88}\u{1C5}\u{130}\u{3A3}".into(),
        "a\u{308}\u{323}e\u{301}\u{AC00}\u{1100}\u{1161}".into(),
        "\u{628}\u{64B}\u{200C}\u{64B}\u{627}".into(),
        "\u{915}\u{94D}\u{200D}l\u{B7}l".into(),
        "\u{5D0}\u{5B8}\u{5D1}1\u{661}".into(),
        "\u{FDFA}\u{A8}\u{2163} x".into(),
        "\u{0}\u{378}\u{10FFFF}\u{E000}".into(),
        "Guybrush   Threepwood ".repeat(3),
        "\u{30FB}\u{6F22}\u{375}\u{3B1}\u{5D0}\u{5F3}\u{660}\u{6F0}".into(),
    ];
    let mut calls = 0u64;
    let mut panics = 0u64;
    let mut tally = |p: bool| {
        calls += 1;
        if p {
            panics += 1;
        }
    };
    for (i, s) in inputs.iter().enumerate() {
        if i % parts != part {
            continue;
        }
        let other = &inputs[(i + 1) % inputs.len()];
        let n = s.chars().count();
        for c in ALL_CLASS {
            tally(api::class_allows(c, s).is_panic());
            tally(api::allows_display(c, s).is_panic());
        }
        for pos in [0usize, 1, n / 2, n.saturating_sub(1), n, n + 1, usize::MAX] {
            for idx in 0..8 {
                tally(api::ctx_rule(idx, s, pos).is_panic());
            }
        }
        for (pos, ch) in s.chars().enumerate().take(8) {
            tally(api::ctx_registry(ch as u32, s, pos).is_panic());
            for c in ALL_CLASS {
                tally(api::class_value_char(c, ch).is_panic());
                tally(api::class_value_cp(c, ch as u32 ^ 0x11_0000).is_panic());
            }
            tally(api::codepoints_probe(ch as u32, ch as u32 + 2, ch as u32 + 1).is_panic());
        }
        for p in ALL_PROF {
            for k in ALL_RULES {
                tally(api::rule(p, k, s).is_panic());
            }
            tally(api::prepare(p, s).is_panic());
            tally(api::enforce_display(p, s).is_panic());
            tally(api::compare(p, s, other).is_panic());
            tally(api::s_compare(p, other, s).is_panic());
            tally(api::s_enforce(p, s).is_panic());
            for f in ALL_ARGFORMS {
                tally(matches!(api::fresh_call(p, true, s, f), Out::Panic(_)));
            }
        }
        tally(api::stabilize_with_rules(s).is_panic());
    }
    for cp in [0xD800u32, 0xDFFF, 0x110000, u32::MAX] {
        for c in ALL_CLASS {
            tally(api::class_value_cp(c, cp).is_panic());
        }
        tally(api::ctx_registered(cp).is_panic());
    }
    println!("MIRIOPS part={}/{} inputs={} calls={} panics={}", part, parts, inputs.len(), calls, panics);
}
