//! harness <property> --tier quick|thorough --seed N --out FILE
//!         [--replay-op OP --replay-case CASE]
//!
//! Runs one monitor against the library built from /repo's working tree and
//! writes what it observed as JSON. Exit code: 0 = ran to completion (the
//! driver decides the verdict from the JSON), 3 = harness/usage error.

mod api;
mod gen;
mod monitors;
mod rawfmt;
mod refmodel;
mod ucd;
mod util;

use std::sync::OnceLock;
use std::time::Instant;

#[derive(Clone, Copy, PartialEq, Eq, Debug)]
pub enum Tier {
    Quick,
    Thorough,
}

pub struct Env {
    pub tier: Tier,
    pub seed: u64,
    pub out_dir: std::path::PathBuf,
    /// (index, count): this process handles the cases with id % count == index (C15)
    pub shard: (usize, usize),
    d6: OnceLock<ucd::Data6>,
    d16: OnceLock<ucd::Data16>,
    pools: OnceLock<gen::Pools>,
    var: OnceLock<gen::Variants>,
}

impl Env {
    pub fn d6(&self) -> &ucd::Data6 {
        self.d6.get_or_init(ucd::Data6::load)
    }
    pub fn d16(&self) -> &ucd::Data16 {
        self.d16.get_or_init(ucd::Data16::load)
    }
    pub fn pools(&self) -> &gen::Pools {
        self.pools.get_or_init(|| gen::Pools::build(self.d6(), self.d16()))
    }
    pub fn var(&self) -> &gen::Variants {
        self.var.get_or_init(|| gen::Variants::build(self.pools(), self.d16()))
    }
    pub fn replay_env(base: &Env, seed: u64) -> Env {
        Env {
            tier: base.tier,
            seed,
            out_dir: base.out_dir.clone(),
            shard: (0, 1),
            d6: OnceLock::new(),
            d16: OnceLock::new(),
            pools: OnceLock::new(),
            var: OnceLock::new(),
        }
    }
    pub fn quick(&self) -> bool {
        self.tier == Tier::Quick
    }
    /// pick a count by tier
    pub fn n(&self, quick: usize, thorough: usize) -> usize {
        let base = if self.quick() { quick } else { thorough };
        // VERIF_SCALE lets a background sweep go deeper than the registered tiers
        match std::env::var("VERIF_SCALE").ok().and_then(|s| s.parse::<f64>().ok()) {
            Some(f) if f > 0.0 => ((base as f64) * f) as usize,
            _ => base,
        }
    }
}

fn main() {
    let args: Vec<String> = std::env::args().collect();
    if args.len() < 2 {
        eprintln!("usage: harness <cNN> --tier quick|thorough --seed N --out FILE [--replay-op OP --replay-case CASE]");
        std::process::exit(3);
    }
    let prop = args[1].to_uppercase();
    let mut tier = Tier::Quick;
    let mut seed = 0u64;
    let mut out = None;
    let mut rop = None;
    let mut rcase = None;
    let mut shard = (0usize, 1usize);
    let mut i = 2;
    while i < args.len() {
        let v = args.get(i + 1).cloned();
        match args[i].as_str() {
            "--tier" => {
                tier = match v.as_deref() {
                    Some("quick") => Tier::Quick,
                    Some("thorough") => Tier::Thorough,
                    _ => {
                        eprintln!("bad --tier");
                        std::process::exit(3)
                    }
                }
            }
            "--seed" => seed = v.and_then(|s| s.parse().ok()).unwrap_or(0),
            "--out" => out = v,
            "--shard" => {
                if let Some((a, b)) = v.as_deref().and_then(|x| x.split_once('/')) {
                    shard = (a.parse().unwrap_or(0), b.parse::<usize>().unwrap_or(1).max(1));
                }
            }
            "--replay-op" => rop = v,
            "--replay-case" => rcase = v,
            other => {
                eprintln!("unknown argument {}", other);
                std::process::exit(3)
            }
        }
        i += 2;
    }
    let out = out.unwrap_or_else(|| {
        eprintln!("--out required");
        std::process::exit(3)
    });
    api::install_panic_hook();
    let env = Env {
        tier,
        seed,
        out_dir: std::path::Path::new(&out).parent().map(|p| p.to_path_buf()).unwrap_or_default(),
        shard,
        d6: OnceLock::new(),
        d16: OnceLock::new(),
        pools: OnceLock::new(),
        var: OnceLock::new(),
    };
    let t0 = Instant::now();
    let rec = match (rop, rcase) {
        (Some(op), Some(case)) => monitors::replay(&prop, &env, &op, &case),
        _ => monitors::run(&prop, &env),
    };
    let mut rec = match rec {
        Some(r) => r,
        None => {
            eprintln!("unknown property {}", prop);
            std::process::exit(3)
        }
    };
    let wall = t0.elapsed().as_secs_f64();
    let tier_s = if tier == Tier::Quick { "quick" } else { "thorough" };
    let j = rec.to_json(&prop, tier_s, seed, wall);
    std::fs::write(&out, j.to_string()).expect("write result");
    let distinct = rec.distinct();
    println!(
        "{} {} seed={} evaluations={} distinct_nontrivial={} violations={} wall={:.1}s",
        prop,
        tier_s,
        seed,
        rec.evaluations,
        distinct,
        rec.n_violations(),
        wall
    );
}
