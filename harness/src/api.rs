//! The client boundary: every call into sancane/precis goes through here, is
//! wrapped in catch_unwind and converted to comparable value types.

use precis_core::profile::{PrecisFastInvocation, Profile, Rules};
use precis_core::{DerivedPropertyValue, Error, FreeformClass, IdentifierClass, StringClass, UnexpectedError};
use precis_profiles::{Nickname, OpaqueString, UsernameCaseMapped, UsernameCasePreserved};
use std::borrow::Cow;
use std::cell::RefCell;
use std::panic::{catch_unwind, AssertUnwindSafe};

#[derive(Clone, Copy, PartialEq, Eq, Hash, Debug, PartialOrd, Ord)]
pub enum Dp {
    PValid,
    SpecClassPval,
    SpecClassDis,
    ContextJ,
    ContextO,
    Disallowed,
    Unassigned,
}

pub const ALL_DP: [Dp; 7] =
    [Dp::PValid, Dp::SpecClassPval, Dp::SpecClassDis, Dp::ContextJ, Dp::ContextO, Dp::Disallowed, Dp::Unassigned];

impl From<DerivedPropertyValue> for Dp {
    fn from(v: DerivedPropertyValue) -> Dp {
        match v {
            DerivedPropertyValue::PValid => Dp::PValid,
            DerivedPropertyValue::SpecClassPval => Dp::SpecClassPval,
            DerivedPropertyValue::SpecClassDis => Dp::SpecClassDis,
            DerivedPropertyValue::ContextJ => Dp::ContextJ,
            DerivedPropertyValue::ContextO => Dp::ContextO,
            DerivedPropertyValue::Disallowed => Dp::Disallowed,
            DerivedPropertyValue::Unassigned => Dp::Unassigned,
        }
    }
}

impl From<Dp> for DerivedPropertyValue {
    fn from(v: Dp) -> DerivedPropertyValue {
        match v {
            Dp::PValid => DerivedPropertyValue::PValid,
            Dp::SpecClassPval => DerivedPropertyValue::SpecClassPval,
            Dp::SpecClassDis => DerivedPropertyValue::SpecClassDis,
            Dp::ContextJ => DerivedPropertyValue::ContextJ,
            Dp::ContextO => DerivedPropertyValue::ContextO,
            Dp::Disallowed => DerivedPropertyValue::Disallowed,
            Dp::Unassigned => DerivedPropertyValue::Unassigned,
        }
    }
}

#[derive(Clone, PartialEq, Eq, Hash, Debug)]
pub enum E {
    Invalid,
    Bad(u32, usize, Dp),
    CtxNotApplicable(u32, usize, Dp),
    MissingRule(u32, usize, Dp),
    ProfileRuleNotApplicable,
    Undefined,
    /// only in EXPECTED sets of the reference pipelines: "some typed error; the statement does not say which"
    Any,
}

/// does the observed result lie in the set the reference allows? (`Err(E::Any)` in the set admits every error)
pub fn accepts<T: PartialEq>(want: &[Out<T>], got: &Out<T>) -> bool {
    want.contains(got) || (matches!(got, Out::Err(_)) && want.iter().any(|w| matches!(w, Out::Err(E::Any))))
}

impl From<Error> for E {
    fn from(e: Error) -> E {
        match e {
            Error::Invalid => E::Invalid,
            Error::BadCodepoint(i) => E::Bad(i.cp, i.position, i.property.into()),
            Error::Unexpected(u) => match u {
                UnexpectedError::ContextRuleNotApplicable(i) => E::CtxNotApplicable(i.cp, i.position, i.property.into()),
                UnexpectedError::MissingContextRule(i) => E::MissingRule(i.cp, i.position, i.property.into()),
                UnexpectedError::ProfileRuleNotApplicable => E::ProfileRuleNotApplicable,
                UnexpectedError::Undefined => E::Undefined,
            },
        }
    }
}

#[derive(Clone, PartialEq, Eq, Hash, Debug)]
pub enum Out<T> {
    Ok(T),
    Err(E),
    Panic(String),
}

pub type R = Out<String>;
pub type RB = Out<bool>;
pub type RU = Out<()>;

impl<T> Out<T> {
    pub fn is_ok(&self) -> bool {
        matches!(self, Out::Ok(_))
    }
    pub fn is_panic(&self) -> bool {
        matches!(self, Out::Panic(_))
    }
    pub fn ok(&self) -> Option<&T> {
        match self {
            Out::Ok(t) => Some(t),
            _ => None,
        }
    }
    pub fn map<U, F: FnOnce(T) -> U>(self, f: F) -> Out<U> {
        match self {
            Out::Ok(t) => Out::Ok(f(t)),
            Out::Err(e) => Out::Err(e),
            Out::Panic(p) => Out::Panic(p),
        }
    }
}

pub fn show_r(r: &R) -> String {
    match r {
        Out::Ok(s) => format!("Ok(\"{}\")", crate::util::esc(s)),
        Out::Err(e) => format!("Err({:?})", e),
        Out::Panic(p) => format!("PANIC({})", p),
    }
}
pub fn show<T: std::fmt::Debug>(r: &Out<T>) -> String {
    match r {
        Out::Ok(s) => format!("Ok({:?})", s),
        Out::Err(e) => format!("Err({:?})", e),
        Out::Panic(p) => format!("PANIC({})", p),
    }
}

// ---------------------------------------------------------- panic hook ----

thread_local! {
    static LAST_PANIC: RefCell<Option<String>> = const { RefCell::new(None) };
}

pub fn install_panic_hook() {
    std::panic::set_hook(Box::new(|info| {
        let loc = info.location().map(|l| format!("{}:{}", l.file(), l.line())).unwrap_or_default();
        let msg = if let Some(s) = info.payload().downcast_ref::<&str>() {
            s.to_string()
        } else if let Some(s) = info.payload().downcast_ref::<String>() {
            s.clone()
        } else {
            "<non-string payload>".to_string()
        };
        let mut msg: String = msg.chars().take(160).collect();
        msg.push_str(" @ ");
        msg.push_str(&loc);
        LAST_PANIC.with(|p| *p.borrow_mut() = Some(msg));
    }));
}

pub fn guard<T, F: FnOnce() -> Result<T, E>>(f: F) -> Out<T> {
    match catch_unwind(AssertUnwindSafe(f)) {
        Ok(Ok(t)) => Out::Ok(t),
        Ok(Err(e)) => Out::Err(e),
        Err(_) => Out::Panic(LAST_PANIC.with(|p| p.borrow_mut().take()).unwrap_or_else(|| "panic".into())),
    }
}

/// for library calls that return a plain value
pub fn guard_v<T, F: FnOnce() -> T>(f: F) -> Out<T> {
    guard(|| Ok(f()))
}

fn cv(r: Result<Cow<'_, str>, Error>) -> Result<String, E> {
    r.map(|c| c.into_owned()).map_err(E::from)
}

// ------------------------------------------------------------ profiles ----

#[derive(Clone, Copy, PartialEq, Eq, Hash, Debug)]
pub enum Prof {
    Ucm,
    Ucp,
    Opaque,
    Nick,
}
pub const ALL_PROF: [Prof; 4] = [Prof::Ucm, Prof::Ucp, Prof::Opaque, Prof::Nick];

impl Prof {
    pub fn name(self) -> &'static str {
        match self {
            Prof::Ucm => "UsernameCaseMapped",
            Prof::Ucp => "UsernameCasePreserved",
            Prof::Opaque => "OpaqueString",
            Prof::Nick => "Nickname",
        }
    }
    pub fn from_name(s: &str) -> Option<Prof> {
        ALL_PROF.iter().copied().find(|p| p.name() == s)
    }
    pub fn is_username(self) -> bool {
        matches!(self, Prof::Ucm | Prof::Ucp)
    }
}

#[derive(Clone, Copy, PartialEq, Eq, Hash, Debug)]
pub enum RuleK {
    Width,
    Additional,
    Case,
    Norm,
    Dir,
}
pub const ALL_RULES: [RuleK; 5] = [RuleK::Width, RuleK::Additional, RuleK::Case, RuleK::Norm, RuleK::Dir];

macro_rules! with_profile {
    ($p:expr, $x:ident => $body:expr) => {
        match $p {
            Prof::Ucm => {
                let $x = UsernameCaseMapped::new();
                $body
            }
            Prof::Ucp => {
                let $x = UsernameCasePreserved::new();
                $body
            }
            Prof::Opaque => {
                let $x = OpaqueString::new();
                $body
            }
            Prof::Nick => {
                let $x = Nickname::new();
                $body
            }
        }
    };
}

/// fresh instance, &str argument
pub fn prepare(p: Prof, s: &str) -> R {
    guard(|| with_profile!(p, x => cv(x.prepare(s))))
}
pub fn enforce(p: Prof, s: &str) -> R {
    guard(|| with_profile!(p, x => cv(x.enforce(s))))
}
pub fn compare(p: Prof, a: &str, b: &str) -> RB {
    guard(|| with_profile!(p, x => x.compare(a, b).map_err(E::from)))
}
pub fn rule(p: Prof, k: RuleK, s: &str) -> R {
    guard(|| {
        with_profile!(p, x => match k {
            RuleK::Width => cv(x.width_mapping_rule(s)),
            RuleK::Additional => cv(x.additional_mapping_rule(s)),
            RuleK::Case => cv(x.case_mapping_rule(s)),
            RuleK::Norm => cv(x.normalization_rule(s)),
            RuleK::Dir => cv(x.directionality_rule(s)),
        })
    })
}

/// the same rule with an owned String argument (Cow::Owned inside the library)
pub fn rule_owned(p: Prof, k: RuleK, s: &str) -> R {
    guard(|| {
        let o = s.to_string();
        with_profile!(p, x => match k {
            RuleK::Width => cv(x.width_mapping_rule(o)),
            RuleK::Additional => cv(x.additional_mapping_rule(o)),
            RuleK::Case => cv(x.case_mapping_rule(o)),
            RuleK::Norm => cv(x.normalization_rule(o)),
            RuleK::Dir => cv(x.directionality_rule(o)),
        })
    })
}

/// static fast-invocation forms
pub fn s_prepare(p: Prof, s: &str) -> R {
    guard(|| match p {
        Prof::Ucm => cv(<UsernameCaseMapped as PrecisFastInvocation>::prepare(s)),
        Prof::Ucp => cv(<UsernameCasePreserved as PrecisFastInvocation>::prepare(s)),
        Prof::Opaque => cv(<OpaqueString as PrecisFastInvocation>::prepare(s)),
        Prof::Nick => cv(<Nickname as PrecisFastInvocation>::prepare(s)),
    })
}
pub fn s_enforce(p: Prof, s: &str) -> R {
    guard(|| match p {
        Prof::Ucm => cv(<UsernameCaseMapped as PrecisFastInvocation>::enforce(s)),
        Prof::Ucp => cv(<UsernameCasePreserved as PrecisFastInvocation>::enforce(s)),
        Prof::Opaque => cv(<OpaqueString as PrecisFastInvocation>::enforce(s)),
        Prof::Nick => cv(<Nickname as PrecisFastInvocation>::enforce(s)),
    })
}
pub fn s_compare(p: Prof, a: &str, b: &str) -> RB {
    guard(|| match p {
        Prof::Ucm => <UsernameCaseMapped as PrecisFastInvocation>::compare(a, b).map_err(E::from),
        Prof::Ucp => <UsernameCasePreserved as PrecisFastInvocation>::compare(a, b).map_err(E::from),
        Prof::Opaque => <OpaqueString as PrecisFastInvocation>::compare(a, b).map_err(E::from),
        Prof::Nick => <Nickname as PrecisFastInvocation>::compare(a, b).map_err(E::from),
    })
}

/// which Cow variant a successful call returned for a borrowed input
#[derive(Clone, Copy, PartialEq, Eq, Debug, Hash)]
pub enum CowKind {
    Borrowed,
    Owned,
}

#[derive(Clone, Copy, PartialEq, Eq, Debug, Hash)]
pub enum ArgForm {
    Str,
    String,
    CowBorrowed,
    CowOwned,
}
pub const ALL_ARGFORMS: [ArgForm; 4] = [ArgForm::Str, ArgForm::String, ArgForm::CowBorrowed, ArgForm::CowOwned];

fn cvk(r: Result<Cow<'_, str>, Error>) -> Result<(String, CowKind), E> {
    r.map(|c| match c {
        Cow::Borrowed(b) => (b.to_string(), CowKind::Borrowed),
        Cow::Owned(o) => (o, CowKind::Owned),
    })
    .map_err(E::from)
}

/// prepare/enforce on a given instance-like `x` with a given argument form
macro_rules! call_form {
    ($x:expr, $m:ident, $s:expr, $form:expr) => {
        match $form {
            ArgForm::Str => cvk($x.$m($s)),
            ArgForm::String => cvk($x.$m($s.to_string())),
            ArgForm::CowBorrowed => cvk($x.$m(Cow::Borrowed($s))),
            ArgForm::CowOwned => cvk($x.$m(Cow::<str>::Owned($s.to_string()))),
        }
    };
}

pub struct LongLived {
    pub ucm: UsernameCaseMapped,
    pub ucp: UsernameCasePreserved,
    pub opaque: OpaqueString,
    pub nick: Nickname,
}
impl LongLived {
    pub fn new() -> Self {
        LongLived {
            ucm: UsernameCaseMapped::new(),
            ucp: UsernameCasePreserved::new(),
            opaque: OpaqueString::new(),
            nick: Nickname::new(),
        }
    }
    pub fn call(&self, p: Prof, enforce: bool, s: &str, form: ArgForm) -> Out<(String, CowKind)> {
        guard(|| match (p, enforce) {
            (Prof::Ucm, false) => call_form!(self.ucm, prepare, s, form),
            (Prof::Ucm, true) => call_form!(self.ucm, enforce, s, form),
            (Prof::Ucp, false) => call_form!(self.ucp, prepare, s, form),
            (Prof::Ucp, true) => call_form!(self.ucp, enforce, s, form),
            (Prof::Opaque, false) => call_form!(self.opaque, prepare, s, form),
            (Prof::Opaque, true) => call_form!(self.opaque, enforce, s, form),
            (Prof::Nick, false) => call_form!(self.nick, prepare, s, form),
            (Prof::Nick, true) => call_form!(self.nick, enforce, s, form),
        })
    }
    pub fn compare(&self, p: Prof, a: &str, b: &str, owned: bool) -> RB {
        guard(|| {
            if owned {
                let (a, b) = (a.to_string(), b.to_string());
                match p {
                    Prof::Ucm => self.ucm.compare(&a, b.clone()),
                    Prof::Ucp => self.ucp.compare(&a, b.clone()),
                    Prof::Opaque => self.opaque.compare(&a, b.clone()),
                    Prof::Nick => self.nick.compare(&a, b.clone()),
                }
                .map_err(E::from)
            } else {
                match p {
                    Prof::Ucm => self.ucm.compare(a, b),
                    Prof::Ucp => self.ucp.compare(a, b),
                    Prof::Opaque => self.opaque.compare(a, b),
                    Prof::Nick => self.nick.compare(a, b),
                }
                .map_err(E::from)
            }
        })
    }
}

pub fn fresh_call(p: Prof, enforce: bool, s: &str, form: ArgForm) -> Out<(String, CowKind)> {
    LongLived::new().call(p, enforce, s, form)
}

macro_rules! static_form {
    ($t:ty, $m:ident, $s:expr, $form:expr) => {
        match $form {
            ArgForm::Str => cvk(<$t as PrecisFastInvocation>::$m($s)),
            ArgForm::String => cvk(<$t as PrecisFastInvocation>::$m($s.to_string())),
            ArgForm::CowBorrowed => cvk(<$t as PrecisFastInvocation>::$m(Cow::Borrowed($s))),
            ArgForm::CowOwned => cvk(<$t as PrecisFastInvocation>::$m(Cow::<str>::Owned($s.to_string()))),
        }
    };
}

pub fn static_call(p: Prof, enforce: bool, s: &str, form: ArgForm) -> Out<(String, CowKind)> {
    guard(|| match (p, enforce) {
        (Prof::Ucm, false) => static_form!(UsernameCaseMapped, prepare, s, form),
        (Prof::Ucm, true) => static_form!(UsernameCaseMapped, enforce, s, form),
        (Prof::Ucp, false) => static_form!(UsernameCasePreserved, prepare, s, form),
        (Prof::Ucp, true) => static_form!(UsernameCasePreserved, enforce, s, form),
        (Prof::Opaque, false) => static_form!(OpaqueString, prepare, s, form),
        (Prof::Opaque, true) => static_form!(OpaqueString, enforce, s, form),
        (Prof::Nick, false) => static_form!(Nickname, prepare, s, form),
        (Prof::Nick, true) => static_form!(Nickname, enforce, s, form),
    })
}

// ------------------------------------------------------ string classes ----

#[derive(Clone, Copy, PartialEq, Eq, Hash, Debug)]
pub enum Class {
    Identifier,
    Freeform,
}
pub const ALL_CLASS: [Class; 2] = [Class::Identifier, Class::Freeform];

pub fn class_value_cp(c: Class, cp: u32) -> Out<Dp> {
    guard_v(|| match c {
        Class::Identifier => IdentifierClass::default().get_value_from_codepoint(cp).into(),
        Class::Freeform => FreeformClass::default().get_value_from_codepoint(cp).into(),
    })
}
pub fn class_value_char(c: Class, ch: char) -> Out<Dp> {
    guard_v(|| match c {
        Class::Identifier => IdentifierClass::default().get_value_from_char(ch).into(),
        Class::Freeform => FreeformClass::default().get_value_from_char(ch).into(),
    })
}
pub fn class_allows(c: Class, s: &str) -> RU {
    guard(|| match c {
        Class::Identifier => IdentifierClass::default().allows(s).map_err(E::from),
        Class::Freeform => FreeformClass::default().allows(s).map_err(E::from),
    })
}

/// A user-supplied string class backed by a table; everything else Unassigned
pub struct TableClass {
    pub table: Vec<(u32, Dp)>,
    pub default: Dp,
}
impl StringClass for TableClass {
    fn get_value_from_char(&self, c: char) -> DerivedPropertyValue {
        self.get_value_from_codepoint(c as u32)
    }
    fn get_value_from_codepoint(&self, cp: u32) -> DerivedPropertyValue {
        for (c, v) in &self.table {
            if *c == cp {
                return (*v).into();
            }
        }
        self.default.into()
    }
}
pub fn table_allows(t: &TableClass, s: &str) -> RU {
    guard(|| t.allows(s).map_err(E::from))
}

// -------------------------------------------------------- context rules ----

#[derive(Clone, Copy, PartialEq, Eq, Hash, Debug)]
pub enum Ctx {
    True,
    False,
    NotApplicable,
    Undefined,
}

pub const RULE_NAMES: [&str; 9] = [
    "zero_width_nonjoiner",
    "zero_width_joiner",
    "middle_dot",
    "greek_keraia",
    "hebrew_punctuation",
    "katakana_middle_dot",
    "arabic_indic_digits",
    "extended_arabic_indic_digits",
    "registry",
];

fn cvc(r: Result<bool, precis_core::context::ContextRuleError>) -> Ctx {
    use precis_core::context::ContextRuleError as C;
    match r {
        Ok(true) => Ctx::True,
        Ok(false) => Ctx::False,
        Err(C::NotApplicable) => Ctx::NotApplicable,
        Err(C::Undefined) => Ctx::Undefined,
    }
}

/// rule index 0..=7: the eight public rule functions (hebrew covers two code points)
pub fn ctx_rule(idx: usize, s: &str, off: usize) -> Out<Ctx> {
    use precis_core::context::*;
    guard_v(|| {
        cvc(match idx {
            0 => rule_zero_width_nonjoiner(s, off),
            1 => rule_zero_width_joiner(s, off),
            2 => rule_middle_dot(s, off),
            3 => rule_greek_lower_numeral_sign_keraia(s, off),
            4 => rule_hebrew_punctuation(s, off),
            5 => rule_katakana_middle_dot(s, off),
            6 => rule_arabic_indic_digits(s, off),
            7 => rule_extended_arabic_indic_digits(s, off),
            _ => unreachable!(),
        })
    })
}

/// get_context_rule(cp) and, if present, the rule evaluated on (s, off)
pub fn ctx_registry(cp: u32, s: &str, off: usize) -> Out<Option<Ctx>> {
    guard_v(|| precis_core::context::get_context_rule(cp).map(|r| cvc(r(s, off))))
}
pub fn ctx_registered(cp: u32) -> Out<bool> {
    guard_v(|| precis_core::context::get_context_rule(cp).is_some())
}

// ------------------------------------------------------------ stabilize ----

pub fn stabilize<F>(s: &str, f: F) -> R
where
    F: for<'b> Fn(&'b str) -> Result<Cow<'b, str>, Error>,
{
    guard(|| cv(precis_core::profile::stabilize(s, f)))
}

// ------------------------------------------------- C01 helper probes ----

/// enforce through Profile and render any error with Display (no panic expected)
pub fn enforce_display(p: Prof, s: &str) -> Out<usize> {
    guard_v(|| {
        let r = with_profile!(p, x => x.enforce(s).map(|c| c.len()));
        match r {
            Ok(n) => n,
            Err(e) => {
                let text = format!("{} / {:?}", e, e);
                let _ = std::error::Error::source(&e);
                text.len()
            }
        }
    })
}

/// allows() error rendered with Display
pub fn allows_display(c: Class, s: &str) -> Out<usize> {
    guard_v(|| {
        let r = match c {
            Class::Identifier => IdentifierClass::default().allows(s),
            Class::Freeform => FreeformClass::default().allows(s),
        };
        match r {
            Ok(()) => 0,
            Err(e) => format!("{}", e).len(),
        }
    })
}

/// stabilize driven by a real profile rule chain (Nickname normalization + additional mapping)
pub fn stabilize_with_rules(s: &str) -> R {
    let n = Nickname::new();
    stabilize(s, |x| {
        let y = n.additional_mapping_rule(x)?;
        n.normalization_rule(y)
    })
}

/// stabilize driven by synthetic rule functions over the given string: kind 0 appends a character on every
/// application (never stable), 1 strips one leading character per application, 2 alternates between two strings,
/// 3 fails on the k-th application, 4 maps everything to the empty string, 5 returns a borrowed suffix
pub fn stabilize_synthetic(s: &str, kind: u8, k: usize) -> R {
    use std::cell::Cell;
    let n = Cell::new(0usize);
    stabilize(s, |x: &str| {
        n.set(n.get() + 1);
        match kind {
            0 => Ok(Cow::Owned(format!("{}\u{E9}", x))),
            1 => Ok(match x.chars().next() {
                Some(c) => Cow::Borrowed(&x[c.len_utf8()..]),
                None => Cow::Borrowed(x),
            }),
            2 => Ok(if x.ends_with('!') { Cow::Owned(x.trim_end_matches('!').to_string()) } else { Cow::Owned(format!("{}!", x)) }),
            3 => {
                if n.get() >= k {
                    Err(Error::BadCodepoint(precis_core::CodepointInfo::new(0x23, n.get(), DerivedPropertyValue::Disallowed)))
                } else {
                    Ok(Cow::Owned(format!("{}x", x)))
                }
            }
            4 => Ok(Cow::Borrowed("")),
            _ => Ok(Cow::Borrowed(x.trim_start_matches('.'))),
        }
    })
}

/// Codepoints comparisons / Display on arbitrary values
pub fn codepoints_probe(a: u32, b: u32, cp: u32) -> Out<usize> {
    use precis_core::Codepoints;
    guard_v(|| {
        let s = Codepoints::Single(a);
        let r = Codepoints::Range(a..=b);
        let mut n = 0usize;
        for e in [&s, &r] {
            n += e.partial_cmp(&cp).map(|_| 1).unwrap_or(0);
            n += cp.partial_cmp(e).map(|_| 1).unwrap_or(0);
            n += (*e == cp) as usize + (cp == *e) as usize + (*e < cp) as usize + (*e >= cp) as usize;
            n += format!("{}", e).len();
        }
        n += (s == r) as usize + (r == (a..=b)) as usize + ((a, b) == r) as usize;
        n
    })
}
