//! Shared by the harness and the racer binary: run one profile operation in a
//! given API form and render the raw result, so that results can be compared
//! across processes as plain strings.

use precis_core::profile::{PrecisFastInvocation, Profile};
use precis_profiles::{Nickname, OpaqueString, UsernameCaseMapped, UsernameCasePreserved};
use std::panic::{catch_unwind, AssertUnwindSafe};

pub const PROFILES: [&str; 4] = ["UsernameCaseMapped", "UsernameCasePreserved", "OpaqueString", "Nickname"];
pub const OPS: [&str; 3] = ["prepare", "enforce", "compare"];

macro_rules! dispatch {
    ($t:ty, $op:expr, $a:expr, $b:expr, $stat:expr) => {
        match ($op, $stat) {
            ("prepare", true) => format!("{:?}", <$t as PrecisFastInvocation>::prepare($a)),
            ("enforce", true) => format!("{:?}", <$t as PrecisFastInvocation>::enforce($a)),
            ("compare", true) => format!("{:?}", <$t as PrecisFastInvocation>::compare($a, $b)),
            ("prepare", false) => format!("{:?}", <$t>::new().prepare($a)),
            ("enforce", false) => format!("{:?}", <$t>::new().enforce($a)),
            ("compare", false) => format!("{:?}", <$t>::new().compare($a, $b)),
            _ => "BAD-OP".to_string(),
        }
    };
}

/// `stat`: through the static PrecisFastInvocation functions (shared lazy
/// statics) instead of a fresh instance
pub fn raw(profile: &str, op: &str, a: &str, b: &str, stat: bool) -> String {
    let r = catch_unwind(AssertUnwindSafe(|| match profile {
        "UsernameCaseMapped" => dispatch!(UsernameCaseMapped, op, a, b, stat),
        "UsernameCasePreserved" => dispatch!(UsernameCasePreserved, op, a, b, stat),
        "OpaqueString" => dispatch!(OpaqueString, op, a, b, stat),
        "Nickname" => dispatch!(Nickname, op, a, b, stat),
        _ => "BAD-PROFILE".to_string(),
    }));
    r.unwrap_or_else(|_| "PANIC".to_string())
}

pub fn esc(s: &str) -> String {
    let mut o = String::new();
    for c in s.chars() {
        if (' '..='~').contains(&c) && c != '\\' {
            o.push(c);
        } else {
            o.push_str(&format!("\\u{{{:X}}}", c as u32));
        }
    }
    o
}

pub fn unesc(s: &str) -> Option<String> {
    let mut o = String::new();
    let mut it = s.chars();
    while let Some(c) = it.next() {
        if c != '\\' {
            o.push(c);
            continue;
        }
        if it.next()? != 'u' || it.next()? != '{' {
            return None;
        }
        let mut h = String::new();
        loop {
            let d = it.next()?;
            if d == '}' {
                break;
            }
            h.push(d);
        }
        o.push(char::from_u32(u32::from_str_radix(&h, 16).ok()?)?);
    }
    Some(o)
}
