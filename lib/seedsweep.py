#!/usr/bin/env python3
"""Re-run, for every kept seeded change, the quick check of the property it was aimed at
(plus any further IDs given on the command line) and write seeded/SWEEP.json.

  lib/seedsweep.py [--all] [C01-3 C07-5 ...]

Uses lib/seedtest.py (git -C /repo apply ... checkout), so evidence of these runs never
lands in /verif/evidence."""
import glob
import json
import os
import re
import shutil
import subprocess
import sys
import time

VERIF = os.path.dirname(os.path.dirname(os.path.abspath(__file__)))


def main():
    args = sys.argv[1:]
    run_all = "--all" in args
    only = [a for a in args if not a.startswith("--")]
    out = {}
    dirs = sorted(glob.glob(os.path.join(VERIF, "seeded", "C*-*")))
    t0 = time.time()
    for d in dirs:
        name = os.path.basename(d)
        if only and name not in only:
            continue
        meta = json.load(open(os.path.join(d, "meta.json")))
        aimed = meta.get("effective_property", meta["property"])
        props = [] if run_all else [aimed]
        r = subprocess.run([os.path.join(VERIF, "lib", "seedtest.py"), os.path.join(d, "patch.diff")] + props,
                           cwd=VERIF, capture_output=True, text=True)
        caught = []
        incon = []
        sigs = {}
        for l in r.stdout.splitlines():
            if l.startswith("scratch: /tmp/seedtest-"):
                shutil.rmtree(l.split(": ", 1)[1].strip(), ignore_errors=True)
            m = re.match(r"(C\d+) (CAUGHT|silent|inconclusive)\s*(.*)", l)
            if m and m.group(2) == "CAUGHT":
                caught.append(m.group(1))
                sigs[m.group(1)] = m.group(3).split(" | ")[0].strip()
            if m and m.group(2) == "inconclusive":
                incon.append(m.group(1))
        own = aimed in caught
        out[name] = {"property": meta["property"], "decided_by": aimed, "caught_by": caught, "inconclusive": incon, "own_check_caught": own,
                     "own_check_signatures": sigs.get(aimed, "")}
        if meta.get("reclassified_not_a_violation"):
            # kept for the record: by the letter of its property this change is not a violation (see its meta.json)
            out[name]["reclassified_not_a_violation"] = True
        print("%s own=%s caught_by=%s %s" % (name, own, " ".join(caught), ("inconclusive=" + " ".join(incon)) if incon else ""), flush=True)
    head = subprocess.run(["git", "-C", VERIF, "rev-parse", "--short", "HEAD"], capture_output=True, text=True).stdout.strip()
    seed = os.environ.get("VERIF_SEED", "")
    res = {"verif_commit": head, "tier": "quick", "seed": seed or "default", "checks_run": "all 18" if run_all else "the aimed property's check",
           "wall_s": round(time.time() - t0), "changes": out,
           "all_caught_by_own_check": all(v["own_check_caught"] for v in out.values() if not v.get("reclassified_not_a_violation")),
           "reclassified_not_a_violation": sorted(k for k, v in out.items() if v.get("reclassified_not_a_violation"))}
    target = os.path.join(VERIF, "seeded", "SWEEP.seed%s.json" % seed if seed else "SWEEP.json")
    if only and "--merge" in args and os.path.exists(target):
        # re-run of some changes after a check was extended: fold the new entries into the recorded sweep
        old = json.load(open(target))
        old["changes"].update(out)
        out = old["changes"]
        res["changes"] = out
        res["wall_s"] = old.get("wall_s", 0) + res["wall_s"]
        res["all_caught_by_own_check"] = all(v["own_check_caught"] for v in out.values() if not v.get("reclassified_not_a_violation"))
        res["reclassified_not_a_violation"] = sorted(k for k, v in out.items() if v.get("reclassified_not_a_violation"))
        res["merged_rerun_of"] = sorted(set(old.get("merged_rerun_of", [])) | set(only))
        only = []
    if not only:
        with open(os.path.join(VERIF, "seeded", "SWEEP.seed%s.json" % seed if seed else "SWEEP.json"), "w") as fh:
            json.dump(res, fh, indent=1)
    print("all caught by own check: %s (%d changes, %d reclassified as not a violation, %ds)" % (res["all_caught_by_own_check"], len(out), len(res["reclassified_not_a_violation"]), res["wall_s"]))
    return 0


if __name__ == "__main__":
    sys.exit(main())
