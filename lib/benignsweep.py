#!/usr/bin/env python3
"""Run quick checks against every kept property-preserving change (benign/<id>/patch.diff) and
write benign/SWEEP.json: every check must stay silent (exit 0) on each of them.

  lib/benignsweep.py [C15 C17 ...]     (default: all 18 quick checks)

Uses lib/seedtest.py (git -C /repo apply ... checkout), evidence goes to a scratch directory."""
import glob
import json
import os
import re
import shutil
import subprocess
import sys
import time

VERIF = os.path.dirname(os.path.dirname(os.path.abspath(__file__)))


def main():
    props = [a for a in sys.argv[1:] if re.match(r"C\d\d$", a)]
    out = {}
    t0 = time.time()
    for d in sorted(glob.glob(os.path.join(VERIF, "benign", "B*-*"))):
        name = os.path.basename(d)
        r = subprocess.run([os.path.join(VERIF, "lib", "seedtest.py"), os.path.join(d, "patch.diff")] + props,
                           cwd=VERIF, capture_output=True, text=True)
        states = {}
        for l in r.stdout.splitlines():
            if l.startswith("scratch: /tmp/seedtest-"):
                shutil.rmtree(l.split(": ", 1)[1].strip(), ignore_errors=True)
            m = re.match(r"(C\d+) (CAUGHT|silent|inconclusive|rc=\d+)\s*(.*)", l)
            if m:
                states[m.group(1)] = m.group(2) if m.group(2) == "silent" else "%s %s" % (m.group(2), m.group(3)[:200])
        bad = {k: v for k, v in states.items() if v != "silent"}
        alarms = {k: v for k, v in bad.items() if not v.startswith("inconclusive")}
        out[name] = {"checks_run": sorted(states), "all_silent": not bad and bool(states), "alarms": alarms,
                     "inconclusive": sorted(k for k, v in bad.items() if v.startswith("inconclusive")), "not_silent": bad}
        print("%s all_silent=%s %s" % (name, out[name]["all_silent"], bad or ""), flush=True)
        write(out, props, t0, False)
    res = write(out, props, t0, True)
    print("no check alarmed on any change: %s; inconclusive: %s (%d changes, %ds)" % (
        res["no_check_alarmed_on_any_change"], res["inconclusive"] or "none", len(out), res["wall_s"]))
    return 0


def write(out, props, t0, complete):
    head = subprocess.run(["git", "-C", VERIF, "rev-parse", "--short", "HEAD"], capture_output=True, text=True).stdout.strip()
    res = {"verif_commit": head, "tier": "quick", "seed": os.environ.get("VERIF_SEED", "default"), "wall_s": round(time.time() - t0),
           "complete": complete, "changes": out,
           "no_check_alarmed_on_any_change": all(not v["alarms"] and v["checks_run"] for v in out.values()),
           "inconclusive": {k: v["inconclusive"] for k, v in out.items() if v["inconclusive"]},
           "every_check_silent_on_every_change": all(v["all_silent"] for v in out.values())}
    name = "SWEEP.json" if not props else "SWEEP.%s.json" % "-".join(props)
    with open(os.path.join(VERIF, "benign", name), "w") as fh:
        json.dump(res, fh, indent=1)
    return res


if __name__ == "__main__":
    sys.exit(main())
