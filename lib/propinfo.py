"""Per property: how cases are generated and what counts as non-trivial (goes into the
evidence 'rule'), the floor of distinct non-trivial cases below which a run is
inconclusive, and the assumptions / trusted base."""

COMMON = [
    "rustc/std (char::to_lowercase, UTF-8 handling) and the unicode-normalization crate are trusted",
    "the UCD snapshot in /verif/data (6.3.0 files, UnicodeData 16.0.0, IANA precis-tables-6.3.0.csv) is the pinned truth",
    "verdict is 'held on the executions observed', not a proof",
]

T_MODEL = "runtime monitoring: reference-model oracle over executions of the real code (enumerated + generated workload)"

INFO = {
    "C01": {
        "rule": "every public operation (class values and allows on both classes and a user class, the eight context rules "
                "and the registry at positions 0..len+2 and extreme usize values, all five Rules methods and "
                "prepare/enforce/compare of the four profiles through Profile and PrecisFastInvocation and all argument "
                "forms, stabilize, Codepoints comparisons, Display of errors) is called under catch_unwind on: every u32 in "
                "0..=0x10FFFF plus boundary/random values above; every scalar value as a one-character string (and after a "
                "letter) through all Rules methods, prepare/enforce and allows; ALL strings over a 9-symbol 1-4 byte alphabet up to length "
                "5 (quick) / 6 (thorough); all strings over 7 space/multi-byte symbols up to length 7 / 9 and all sequences of up to "
                "5 / 6 block-level symbols (16-byte ASCII blocks, multi-byte runs, space kinds) through the enforce paths; random "
                "hostile strings; long inputs with the interesting characters at power-of-two byte offsets, same-length variants "
                "in one reused buffer, owned (String) arguments; a few strings of 10^4-10^5 characters. Built with overflow checks and debug "
                "assertions on (thorough: also plain release, and the miriops program under Miri). Oracle: no panic payload, "
                "no death on a signal. every scalar value c also as alef c bet, fullwidth-A c and c alef through every rule and enforce; Non-trivial = distinct inputs containing a multi-byte character or a non-scalar / "
                "out-of-range argument.",
        "floor_quick": 50000,
        "technique": "runtime monitoring: catch_unwind panic monitor over enumerated and hostile inputs; Miri (UB interpreter) in thorough",
        "assumptions": COMMON + ["a panic is observed through catch_unwind with panic=unwind; aborts are seen as the child dying on a signal"],
    },
    "C02": {
        "rule": "StringClass::allows on IdentifierClass, FreeformClass and user-supplied table classes (7 constant + random "
                "assignments of the 7 derived values to 12 symbols with and without a registered rule) is compared with a "
                "per-code-point reference (values from the class under test, context decided by the independent RFC 5892 "
                "model, position counted in code points, first offender wins). Labels: ALL labels up to length 5 (quick) / 6 "
                "(thorough) over a 22-symbol alphabet holding every derived value, every contextual code point, enabling and "
                "disabling neighbours and 1-4 byte characters; all labels up to length 3 over the 12 symbols per table class; "
                "constructive valid contextual labels, single edits, random labels with the first offender at every "
                "position; EVERY Unicode scalar value alone and paired with the code points sharing its low 16 bits; ZWNJ "
                "between runs of 0-70 transparent marks; long labels with the offender at power-of-two byte offsets and "
                "same-length variants in one reused buffer. At a label edge, where RFC 5892 is undefined, BadCodepoint and Undefined are both accepted. "
                "Non-trivial = distinct (class, label) whose verdict is decided by a non-PVALID code point.",
        "floor_quick": 100000,
        "technique": T_MODEL,
        "assumptions": COMMON + ["derived property values are taken from the class under test (C14 owns them)"],
    },
    "C03": {
        "rule": "each of the eight rule functions (and the rule returned by the registry) is compared with an independent "
                "three-valued implementation of RFC 5892 A.1-A.9 over the 6.3.0 virama/joining-type/script data: EVERY Unicode "
                "scalar value as the inspected neighbour in 17 roles; ALL arrangements of 8 joining-type symbols up to length "
                "7 and 7 symbols up to length 8 (quick) / 8 symbols to 8 and 7 symbols to 9 (thorough), ZWNJ between runs of "
                "0-70 transparent marks, long labels with contextual characters at power-of-two byte offsets (same-length "
                "variants in one reused buffer), at every position inside and outside the label; all "
                "eight rules at every position of constructive, mutated and random labels; registry membership for every "
                "value 0..=0x10FFFF against the IANA registry. True/false are strict; where a neighbour lies outside the "
                "label, false and undefined are both accepted (the property permits undefined only there). Non-trivial = "
                "distinct (rule, label, position) with the rule's own code point at the position.",
        "floor_quick": 1000000,
        "technique": T_MODEL,
        "assumptions": COMMON,
    },
    "C04": {
        "rule": "prepare and enforce of UsernameCaseMapped / UsernameCasePreserved are compared with a reference pipeline "
                "(width map from UnicodeData 16.0.0, non-empty, reference IdentifierClass acceptance, per-character lowercase "
                "for the mapped profile, NFC called directly, non-empty, then the RFC 5893 reference verdict - except on labels with the shape of the open "
                "finding F4, where the library's own step is taken) on: every Unicode scalar value alone, after/before U+05D0 and after U+FF21; all strings over the 9-symbol "
                "alphabet up to length 5 / 7; long inputs (cores at power-of-two byte "
                "offsets, runs of combining marks, same-length variants in one buffer), each call preceded by a call of another "
                "profile on the same input and repeated with an owned argument; generated names and their variants "
                "(fullwidth capitals, halfwidth katakana + voiced marks, upper-case base + mark where lowercase and NFC do not "
                "commute, contextual characters, RTL letters/digits with LTR tails), hostile strings. Also: every prepare "
                "failure is enforce's result. Non-trivial = distinct accepted (profile, input) on which at least two of "
                "{width, case, NFC, RTL check} were effective.",
        "floor_quick": 20000,
        "technique": T_MODEL,
        "assumptions": COMMON + ["the directionality step inside the pipeline reference is the library's (open known finding F4 is reported once, under C09)"],
    },
    "C05": {
        "rule": "OpaqueString prepare/enforce vs reference (non-empty, reference FreeformClass acceptance; every Zs other than "
                "U+0020 from UnicodeData 16.0.0 mapped to U+0020; NFC direct; non-empty): all strings up to length 5 / 7 over "
                "{SP, Zs, a, E9, 20AC, 1F600, FF21, A} for each of the 16 non-ASCII Zs, long inputs at power-of-two byte offsets, "
                "white space of every kind at the edges, owned arguments, history pollution by other profiles, "
                "every Zs in 8 frames, every Unicode scalar value in 3 frames, every canonical decomposition of UnicodeData "
                "16.0.0 in decomposed form, random passwords. Non-trivial = distinct accepted inputs changed by space mapping "
                "or NFC, or containing compatibility / upper-case characters that must be preserved.",
        "floor_quick": 50000,
        "technique": T_MODEL,
        "assumptions": COMMON,
    },
    "C06": {
        "rule": "Nickname prepare/enforce vs a reference loop (up to 4 applications of: non-empty, FreeformClass acceptance, "
                "split on Zs / join with one space, NFKC direct, non-empty) and the invariant that every accepted result is a "
                "fixed point of one application: all pairs and triples over the 52 characters whose NFKC "
                "introduces a space plus marks/spaces/multi-byte letters, all strings up to length 5 / 7 over 9 "
                "representatives, all sequences of up to 4 / 5 block-level symbols, runs of 0-70 combining marks, long inputs at "
                "power-of-two byte offsets, owned arguments, history pollution, random nicknames. The histogram 'accepted-after-k-applications' shows how deep the "
                "iteration was driven. the error of the first application is pinned; for a string rejected by a re-application any typed error is accepted (the statement says 'is rejected'); Non-trivial = distinct inputs needing >= 2 applications (accepted or rejected later).",
        "floor_quick": 20000,
        "technique": T_MODEL,
        "assumptions": COMMON,
    },
    "C07": {
        "rule": "families of 4-10 spellings of one name (case, width, spacing, NFC/NFD/NFKC/NFKD forms, one-character edits, "
                "members invalid for different reasons, length extensions by 1/255/256/257/512/65536 bytes, long members "
                "differing at a power-of-two byte offset) for all four profiles: every ordered pair is compared with (1) "
                "equality of reference comparison forms, first operand's error first, (2) for usernames/OpaqueString "
                "enforce(a)==enforce(b) with the library's enforce, (3) the static compare; a second pair-major pass with the other profiles interleaved must reproduce every result; "
                "members of equal byte length are written one after the other into one reused buffer (as first and as second operand, instance and static form) and must give the results of their content; "
                "every scalar value is swept in four cased contexts (A+c / a+lower(c), c+A / upper(c)+a, 'Team 3c4' / 'team 3c4', c / lower(c) / upper(c)) through the same checks; the recorded "
                "matrix is checked for reflexivity on accepted strings, symmetry (errors may differ only in which), transitivity over all triples. "
                "for an operand rejected by a re-application of the nickname rules any typed error is accepted; Non-trivial = distinct pairs of different strings with Ok(true), or with exactly one side rejected.",
        "floor_quick": 20000,
        "technique": "runtime monitoring: reference-model oracle plus relational (equivalence) monitors over recorded result matrices",
        "assumptions": COMMON,
    },
    "C08": {
        "rule": "invariant monitor on every successful enforce of all four profiles: no code point of the result is "
                "DISALLOWED/UNASSIGNED in the profile's own class (classified by the class under test) and enforcing the "
                "result again gives the same string or an error. Workload: every Unicode scalar value as c and 'a c'; every "
                "character whose lowercase/NFC/NFKC form differs, with marks and in pairs; every canonical composition pair "
                "of 16.0.0; the generated inputs of C04-C06. Known finding F5 (85 Cherokee letters) is matched per output "
                "code point. every result is re-enforced once more after unrelated calls, and every changed result is handed to the other three profiles straight after it was produced and what they return is re-enforced after unrelated calls; Non-trivial = distinct accepted (profile, input) whose output differs from the input.",
        "floor_quick": 50000,
        "technique": "runtime monitoring: invariant checked on every observed enforce result",
        "assumptions": COMMON,
    },
    "C09": {
        "rule": "Rules::directionality_rule of both username profiles (and the final verdict of enforce on strings that pass "
                "the reference pre-steps) vs RFC 5893 section 2 written as six predicates over the 16.0.0 bidi classes: ALL "
                "sequences of the 23 classes up to length 5 (quick) / 6 (thorough) with one representative per class and with "
                "random members; EVERY code point assigned in 16.0.0 in 9 templates that separate every pair of classes the "
                "rule can tell apart (self-checked at start-up); random RTL-heavy labels; long labels with the deciding character at power-of-two byte "
                "offsets. Known finding F4 is matched by "
                "signature (RFC accepts, library rejects, an NSM is followed by a non-NSM). Non-trivial = distinct class "
                "sequences containing an R/AL/AN character.",
        "floor_quick": 50000,
        "technique": T_MODEL,
        "assumptions": COMMON + ["only code points assigned in Unicode 16.0.0 are used (the property's quantifier)"],
    },
    "C10": {
        "rule": "Rules::case_mapping_rule of UsernameCaseMapped and Nickname vs per-character char::to_lowercase: EVERY "
                "Unicode scalar value in 7 contexts (alone, after a/A/titlecase/multi-byte prefix, before A, doubled) and next "
                "to the code points sharing its low 16 bits; all strings up to length 6 / 7 over 11 cased/uncased symbols; "
                "random strings; long inputs at power-of-two byte offsets; owned (String) arguments must give the same result; profile-level effect through "
                "UsernameCaseMapped::enforce and Nickname::compare(s, lowercase(s)). Non-trivial = distinct inputs containing "
                "a character whose lowercase mapping is not itself (bucketed by whether an uppercase letter precedes it).",
        "floor_quick": 500000,
        "technique": T_MODEL,
        "assumptions": COMMON + ["oracle and library share char::to_lowercase by design (the README defines the mapping by it); the first-change/copy logic is what is under test"],
    },
    "C11": {
        "rule": "Rules::width_mapping_rule of both username profiles (idempotence, and prepare's result) vs the <wide>/<narrow> "
                "decomposition map of UnicodeData 16.0.0: EVERY Unicode scalar value in 5 contexts and next to its low-16-bit aliases; all strings up to length "
                "7 / 8 over {a, FF21, FF76, FF9E, FFE0, 2460, E9, 1F600}; random strings; long inputs with the first mapped "
                "character at power-of-two byte offsets; owned arguments. Non-trivial = distinct inputs with "
                "a mapped character (bucketed by position and multi-byte prefix) or another compatibility character that must "
                "be kept.",
        "floor_quick": 500000,
        "technique": T_MODEL,
        "assumptions": COMMON,
    },
    "C12": {
        "rule": "Nickname and OpaqueString additional_mapping_rule (idempotence; effect through enforce) vs split/join and "
                "per-character references over the Zs set of 16.0.0: ALL strings up to length 7 / 8 over {SP, A0, 2003, 3000, "
                "a, E9, 20AC, 1F600}; all sequences of up to 5 / 6 block-level symbols (16/15-byte ASCII blocks, 18/16-byte "
                "multi-byte runs, space kinds); a space of each kind at every byte offset 0-80; long inputs at power-of-two "
                "offsets; owned arguments; each of the 17 Zs at every position of strings up to length 5; EVERY Unicode scalar "
                "value in 4 contexts; long random strings with space runs. Non-trivial = distinct inputs with at least one "
                "space and one multi-byte character (bucketed by the first action needed).",
        "floor_quick": 500000,
        "technique": T_MODEL,
        "assumptions": COMMON,
    },
    "C13": {
        "rule": "stabilize is run on EVERY total-or-failing function over n states (n<=6 quick, n<=7 thorough) from every "
                "start state, with single- and multi-byte state strings and four result representations (owned; borrowed only "
                "when unchanged; always a borrowed 'static string; borrowed sub-slice of the argument), plus chains, "
                "cycles (period 2-7) and tails beyond that bound; the function spaces for n<=4/5 again with long state strings "
                "(equal length with a 70-byte common prefix, strict prefixes, nested interior slices) and for n<=3 with 17 "
                "well-known colliding string pairs of common 32-bit hashes as state names; the closure logs every call. Oracle: simulation of the "
                "contract (<=4 applications, first error wins, first f(x)=x wins). state names whose code point counts differ by factors of exactly 17, 18, 19 and 324; Non-trivial = distinct (function, start, "
                "representation) whose contract needs >=2 applications.",
        "floor_quick": 1000,
        "technique": "runtime monitoring: event log of closure calls checked against a simulation of the contract, exhaustive over small function spaces",
        "assumptions": COMMON + ["closure call log is recorded by the harness closure itself (client boundary)"],
    },
    "C14": {
        "rule": "every code point 0..=0x10FFFF x {IdentifierClass, FreeformClass} x {code point, char entry}, compared with "
                "(1) the IANA registry snapshot read by an own parser and (2) an independent recomputation of RFC 8264 "
                "section 8 from the raw 6.3.0 files; boundary and random u32 above U+10FFFF must be DISALLOWED/UNASSIGNED; the table again in descending order, "
                "in random jumps with neighbours looked up first, with the aliases cp|2^21..cp|2^31 right after cp, and from all "
                "threads at once on 16 code points with alternating answers (lookup-order, history and concurrency independence). "
                "Non-trivial = distinct code points decided by a step other than Unassigned / final default.",
        "floor_quick": 100000,
        "technique": "runtime monitoring: exhaustive differential check of every code point against two independent oracles",
        "assumptions": COMMON + ["HasCompat oracle shares unicode-normalization with the library; the registry CSV is the primary oracle"],
    },
    "C15": {
        "rule": "the two real build scripts (/repo/precis-core/build.rs, /repo/precis-profiles/build.rs) are included verbatim "
                "and run in-process on UCD directories written by the monitor: the pinned 6.3.0 / 16.0.0 inputs, synthetic "
                "well-formed files (random segments of singles, First/Last ranges incl. First==Last, gaps of 0/1/many, value "
                "runs, first entry != U+0000, early or U+10FFFD end, wide/narrow/compat/canonical decompositions, ends at U+10FFFD or U+10FFFE, property "
                "files with single/range/split lines in ascending, shuffled, descending or by-code-point order, intervals straddling plane boundaries, ending at U+10FFFF, 90,000 long) and perturbations of the real files (windows, subsets, run-wise "
                "re-assignment, folding singles into ranges and splitting ranges). Every emitted table is parsed back, "
                "searched with the library's binary_search_by idiom over precis_core::Codepoints at every entry/truth "
                "boundary (every code point when an anomaly is seen) and its denotation compared exactly with the ground "
                "truth from the harness' own UCD parser (entries may be Codepoints::Single/Range in either range spelling or plain (first, last, value) triples; a table in a form the parser cannot read makes the run inconclusive); some cases are also compiled with rustc (the emitted files alone must compile; the table checksums of a compiled driver must agree with the text parser); every third case runs the build a second time in the same "
                "directory on a same-length rewrite of UnicodeData.txt. Non-trivial = distinct "
                "inputs with a range adjacent to a differently valued entry (or a pinned input).",
        "floor_quick": 100,
        "technique": "runtime monitoring: the real generators run on generated inputs, output checked against the input's ground truth",
        "assumptions": COMMON + ["'well-formed' = sorted, unique, First/Last paired, no noncharacters listed in UnicodeData.txt"],
    },
    "C16": {
        "rule": "Phase A: for generated inputs every profile operation is called as static function, fresh instance and "
                "long-lived instance with &str / String / Cow::Borrowed / Cow::Owned arguments; contents must be identical. "
                "Phase B: fresh single-threaded child processes replay a fixed case list in seeded permutations, compared "
                "with a baseline from another fresh process. The baseline evaluates every case in its own fresh process (no history). Phase C: fresh child processes release 16-64 threads together "
                "onto the static functions as their very first library calls; per-thread logs are checked offline against "
                "the baseline and the number of threads overlapping the first call is counted; rounds alternate between "
                "random and input-major order. Phase E runs long homogeneous workloads (all ASCII, Latin-1, CJK, right-to-left, errors only ...) in single-threaded "
                "processes, each followed by the whole case list (adaptive modes). Phase D hammers few inputs that differ in one code point (congruent modulo "
                "64..65536, different derived property) from 8-32 threads. The racer program is also run "
                "under ThreadSanitizer (both tiers) and under Miri with many schedule seeds (thorough). phase A2: the string one profile has just produced is enforced by another profile as the very next call, again after unrelated calls and on a helper thread - the three results must agree; phase A3: two contents of equal byte length processed one after the other from the same buffer must give the results of a copy at another address; Non-trivial = "
                "distinct accepted-and-changed (profile, op, input) in phase A plus distinct child processes (histories / "
                "schedules) in phases B/C and sanitizer runs.",
        "floor_quick": 1000,
        "technique": "runtime monitoring: differential API-form checks, offline checker over per-thread event logs from stress schedules, ThreadSanitizer and Miri",
        "assumptions": COMMON + ["schedules are sampled, not enumerated; TSan sees only synchronisation it intercepts (std is rebuilt instrumented with -Zbuild-std)"],
    },
    "C17": {
        "rule": "registry rows are rendered from a row model (single or range in 4-6 upper-case hex digits, one property or "
                "'A or B' with 1-3 blanks, descriptions with commas/quotes/empty/non-ASCII) and must read back through "
                "PrecisDerivedProperty::from_str and, in files with header, LF/CRLF and with/without final newline, through "
                "CsvLineParser in file order; 16 kinds of damage (field deleted/emptied, hex digit corrupted, sign or blank "
                "inserted, beyond U+10FFFF, broken or unknown property, 'or' without operands, 'or' glued to a property name (all 49 pairs x 3 gluings), wrong separator, empty line, long multi-byte text in the code point or property column) "
                "must give Err with the 1-based line number; reversed ranges / lower-case hex only for 'no panic'; a 70,000-row "
                "file (line numbers beyond 65,535) with rows of up to 290 KB; code point fields of 9-16 hex digits; the "
                "registry snapshot itself row by row against the own parser. Descriptions read through the line parser are compared up to their line terminator (kept or stripped); for a line that is not UTF-8 an error with no or with the right line number is accepted. blanks or tabs around the code point or property field: rejected, or accepted with exactly the spelled values (blanks inside a field, signs and prefixes are malformed); Non-trivial = distinct lines / files.",
        "floor_quick": 100000,
        "technique": "runtime monitoring: round-trip oracle over generated well-formed rows and negative oracle over damaged rows",
        "assumptions": COMMON,
    },
    "C18": {
        "rule": "exhaustive window: every Single(a)/Range(a..=b), a<=b, against every cp over {0..k} U {u32::MAX-k..} U "
                "{around 0x10FFFF}; 12 relations per pair (partial_cmp,<,<=,>,>=,== in both directions) vs a trichotomy model; "
                "the same over 110 special magnitudes (powers of two +-1 up to 2^31, 0xFFFF/0x10000, u32::MAX) and random "
                "full-range triples; then random sorted disjoint tables anywhere in the u32 range searched with the library's binary_search_by idiom. `!=` is observed as its own operator in both directions; Non-trivial = "
                "distinct (entry, cp) pairs and (table, probe) pairs, bucketed by relative position.",
        "floor_quick": 5000,
        "technique": "runtime monitoring: exhaustive differential check of the comparison operators against a trichotomy model",
        "assumptions": COMMON + ["precis_core::Codepoints is the type emitted from codepoints.template that all table lookups use"],
    },
}
