"""Per property: how cases are generated and what counts as non-trivial (goes into the
evidence 'rule'), the floor of distinct non-trivial cases below which a run is
inconclusive, and the assumptions / trusted base."""

COMMON = [
    "rustc/std (char::to_lowercase, UTF-8 handling) and the unicode-normalization crate are trusted",
    "the UCD snapshot in /verif/data (6.3.0 files, UnicodeData 16.0.0, IANA precis-tables-6.3.0.csv) is the pinned truth",
    "verdict is 'held on the executions observed', not a proof",
]

INFO = {
    "C13": {
        "rule": "stabilize is run on EVERY total-or-failing function over n states (n<=5 quick, n<=6 thorough) from every "
                "start state, with single- and multi-byte state strings and Borrowed/Owned unchanged results, plus chains, "
                "cycles (period 2-7) and tails beyond that bound; the closure logs every call. Oracle: simulation of the "
                "contract (<=4 applications, first error wins, first f(x)=x wins). Non-trivial = distinct (function, start, "
                "representation) whose contract needs >=2 applications.",
        "floor_quick": 1000,
        "assumptions": COMMON + ["closure call log is recorded by the harness closure itself (client boundary)"],
    },
    "C14": {
        "rule": "every code point 0..=0x10FFFF x {IdentifierClass, FreeformClass} x {code point, char entry}, compared with "
                "(1) the IANA registry snapshot read by an own parser and (2) an independent recomputation of RFC 8264 "
                "section 8 from the raw 6.3.0 files; boundary and random u32 above U+10FFFF must be DISALLOWED/UNASSIGNED. "
                "Non-trivial = distinct code points decided by a step other than Unassigned / final default.",
        "floor_quick": 100000,
        "assumptions": COMMON + ["HasCompat oracle shares unicode-normalization with the library; the registry CSV is the primary oracle"],
    },
    "C18": {
        "rule": "exhaustive window: every Single(a)/Range(a..=b), a<=b, against every cp over {0..k} U {u32::MAX-k..} U "
                "{around 0x10FFFF}; 12 relations per pair (partial_cmp,<,<=,>,>=,== in both directions) vs a trichotomy model; "
                "then random sorted disjoint tables searched with the library's binary_search_by idiom. Non-trivial = "
                "distinct (entry, cp) pairs and (table, probe) pairs, bucketed by relative position.",
        "floor_quick": 5000,
        "assumptions": COMMON + ["precis_core::Codepoints is the type emitted from codepoints.template that all table lookups use"],
    },
}
