"""Property-specific extra parts of a check (sanitizer runs, second build profile,
multi-process schedule exploration). Each part returns a harness-style result dict."""


def extra_parts(drv, prop, tier, seed, extra_cov):
    return []


def setup(drv):
    return True
