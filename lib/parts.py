"""Property-specific parts of a check beyond the main monitor run:

  C01  thorough: the same workload under the plain release profile (wrapping
       arithmetic, no debug assertions) and the miriops program under Miri
  C15  the main workload is sharded over 16 processes (the included build
       scripts read their directories from process-global environment variables)
  C16  the racer program under ThreadSanitizer (both tiers) and under Miri with
       many schedule seeds (thorough)

Each part returns a harness-style result dict. A sanitizer REPORT is a
violation (its log is the replay); a sanitizer that cannot be built or run is
recorded in the evidence as 'not run' and never turns into a violation.
"""
import concurrent.futures
import os
import re
import subprocess
import time

NIGHTLY = "+nightly"
TARGET_TRIPLE = "x86_64-unknown-linux-gnu"


def _empty(**kw):
    r = {"evaluations": 0, "distinct_nontrivial": 0, "histogram": {}, "samples": [], "violations": [],
         "exhaustive_parts": [], "notes": [], "wall_s": 0}
    r.update(kw)
    return r


# ------------------------------------------------------------------ C15 ----

def run_main(drv, binary, prop, tier, seed):
    """main monitor run; C15 is sharded over processes"""
    if prop != "C15":
        return drv.run_harness(binary, prop, tier, seed)
    n = int(os.environ.get("VERIF_SHARDS", "16"))
    t0 = time.time()
    with concurrent.futures.ThreadPoolExecutor(max_workers=n) as ex:
        futs = [ex.submit(drv.run_harness, binary, prop, tier, seed, "shard%d" % i, ["--shard", "%d/%d" % (i, n)])
                for i in range(n)]
        results = [f.result() for f in futs]
    for r in results:
        if r.get("crashed"):
            return r
    tot = drv.merge([("main", r) for r in results])
    tot["wall_s"] = time.time() - t0
    # merge() keeps per-signature entries per shard: fold equal signatures together
    sigs = {}
    for v in tot["violations"]:
        e = sigs.setdefault(v["signature"], {"signature": v["signature"], "count": 0, "witnesses": []})
        e["count"] += v["count"]
        e["witnesses"] = (e["witnesses"] + v["witnesses"])[:5]
    tot["violations"] = list(sigs.values())
    tot["notes"] = sorted(set(tot["notes"]))
    return tot


# ------------------------------------------------------------- sanitizers ----

def _tsan_binary(drv):
    env = {"CARGO_TARGET_DIR": os.path.join(drv.TARGET, "tsan"), "RUSTFLAGS": "-Zsanitizer=thread"}
    rc, out = drv.cargo(["build", "--offline", "-Zbuild-std", "--target", TARGET_TRIPLE, "--release", "--bin", "racer"],
                        toolchain=NIGHTLY, extra_env=env, timeout=1800)
    if rc != 0:
        return None, out[-1500:]
    return os.path.join(drv.TARGET, "tsan", TARGET_TRIPLE, "release", "racer"), ""


def _first_repo_frame(block):
    for l in block.splitlines():
        m = re.search(r"#\d+\s+(\S+).*?(/repo/[^\s:]+|precis[_-][a-z]+[^\s]*)", l)
        if m:
            return re.sub(r":\d+.*$", "", m.group(0).split()[-1])
    return "unknown-frame"


def tsan_part(drv, tier, seed, extra_cov):
    t0 = time.time()
    binary, err = _tsan_binary(drv)
    if binary is None:
        extra_cov["sanitizer_tsan"] = "not run: build failed: %s" % err[-300:]
        return _empty(notes=["ThreadSanitizer part not run (build failed)"])
    runs = 20 if tier == "quick" else 200
    res = _empty()
    reports = {}
    calls = 0
    overlap = 0
    env = dict(os.environ)
    env["TSAN_OPTIONS"] = "halt_on_error=0 report_signal_unsafe=0 exitcode=66"
    for k in range(runs):
        threads = [8, 16, 32][k % 3]
        cmd = [binary, "selftest", "--threads", str(threads), "--rounds", "2", "--seed", str(seed * 1000 + k),
               "--spin-us", "200"]
        try:
            p = subprocess.run(cmd, env=env, stdout=subprocess.PIPE, stderr=subprocess.PIPE, text=True, timeout=300)
        except subprocess.TimeoutExpired:
            res["notes"].append("ThreadSanitizer run %d hit the watchdog (not a verdict)" % k)
            continue
        m = re.search(r"calls=(\d+) mismatches=(\d+) first_call_overlap=(\d+)", p.stdout)
        if m:
            calls += int(m.group(1))
            overlap += int(m.group(3))
            if int(m.group(2)) > 0:
                reports.setdefault("tsan-build:result-mismatch", []).append(p.stdout[-1500:])
        for block in re.split(r"(?==================\nWARNING: ThreadSanitizer)", p.stderr):
            if "WARNING: ThreadSanitizer" in block:
                reports.setdefault("tsan:data-race@%s" % _first_repo_frame(block), []).append(block[:4000])
        if p.returncode not in (0, 66) and "ThreadSanitizer" not in p.stderr:
            res["notes"].append("ThreadSanitizer run %d exited with %s: %s" % (k, p.returncode, p.stderr[-300:]))
    res["evaluations"] = calls
    res["distinct_nontrivial"] = runs
    res["histogram"] = {"processes": runs, "static calls under ThreadSanitizer": calls,
                        "sum of threads overlapping the first call": overlap,
                        "distinct race reports": len(reports)}
    res["samples"] = [{"class": "tsan", "case": "racer selftest --threads 8|16|32 --rounds 2 (x%d processes)" % runs}]
    for sig, blocks in reports.items():
        res["violations"].append({"signature": sig, "count": len(blocks), "log": blocks[0],
                                  "witnesses": [{"op": "racer under ThreadSanitizer", "case": "seed=%d" % seed,
                                                 "expected": "no data race report",
                                                 "observed": blocks[0][:600]}]})
    res["wall_s"] = time.time() - t0
    extra_cov["sanitizer_tsan"] = "ran %d processes, %d calls, %d distinct reports" % (runs, calls, len(reports))
    return res


def _miri(drv, bin_name, prog_args, flags, timeout):
    env = {"CARGO_TARGET_DIR": os.path.join(drv.TARGET, "miri"), "MIRIFLAGS": flags}
    return drv.cargo(["miri", "run", "--offline", "--bin", bin_name, "--"] + prog_args, toolchain=NIGHTLY,
                     extra_env=env, timeout=timeout)


def _miri_result(name, rc, out, calls_re, extra_cov, key, t0, sample):
    res = _empty()
    calls = sum(int(x) for x in re.findall(calls_re, out))
    res["evaluations"] = calls
    res["distinct_nontrivial"] = len(re.findall(calls_re, out))
    res["histogram"] = {"calls interpreted by Miri": calls}
    res["samples"] = [{"class": "miri", "case": sample}]
    res["wall_s"] = time.time() - t0
    ub = "Undefined Behavior" in out or "data race" in out.lower() or re.search(r"error: .*(memory leak|deadlock)", out)
    if ub:
        i = out.find("error")
        res["violations"].append({"signature": "miri:%s" % name, "count": 1, "log": out[-6000:],
                                  "witnesses": [{"op": "%s under Miri" % name, "case": sample,
                                                 "expected": "no undefined behaviour / data race report",
                                                 "observed": out[i:i + 800]}]})
        extra_cov[key] = "Miri reported an error"
    elif rc != 0 or calls == 0:
        res["notes"].append("Miri part '%s' not conclusive (rc=%s): %s" % (name, rc, out[-300:]))
        extra_cov[key] = "not run / failed without a report (rc=%s)" % rc
        res["distinct_nontrivial"] = 0
    else:
        extra_cov[key] = "interpreted %d calls, no report" % calls
    return res


def miri_racer_part(drv, tier, seed, extra_cov):
    """racer selftest under Miri: 8 schedule seeds (thorough) in 4 parallel interpreter processes, each seed
    runs 3 threads over every 3rd built-in case (an interpreted call costs ~0.2 s)"""
    t0 = time.time()
    procs = 4 if tier == "thorough" else 1
    per = 2

    def one(i):
        try:
            return _miri(drv, "racer", ["selftest", "--threads", "3", "--rounds", "1", "--seed", str(seed + i), "--spin-us", "0",
                                        "--every", "3"],
                         "-Zmiri-many-seeds=%d..%d" % (i * per, (i + 1) * per), 3 * 3600)
        except subprocess.TimeoutExpired:
            return (1, "watchdog")
    outs = [one(0)]  # builds once
    if procs > 1:
        with concurrent.futures.ThreadPoolExecutor(max_workers=procs) as ex:
            outs += list(ex.map(one, range(1, procs)))
    rc = max(r for r, _ in outs)
    out = "\n".join(o for _, o in outs)
    return _miri_result("racer", rc, out, r"RACER .*? calls=(\d+)", extra_cov, "sanitizer_miri_racer", t0,
                        "racer selftest --threads 3 --every 3 under Miri, %d schedule seeds in %d processes" % (procs * per, procs))


def miri_ops_part(drv, tier, seed, extra_cov):
    t0 = time.time()
    n = 8

    def one(i):
        try:
            return _miri(drv, "miriops", ["--part", "%d/%d" % (i, n)], "", 4 * 3600)
        except subprocess.TimeoutExpired:
            return (1, "watchdog")
    # build once, then the parts in parallel
    rc0, out0 = one(0)
    outs = [(rc0, out0)]
    with concurrent.futures.ThreadPoolExecutor(max_workers=n) as ex:
        outs += list(ex.map(one, range(1, n)))
    rc = max(r for r, _ in outs)
    out = "\n".join(o for _, o in outs)
    return _miri_result("miriops", rc, out, r"MIRIOPS .*? calls=(\d+)", extra_cov, "sanitizer_miri_ops", t0,
                        "miriops: every public operation on 13 hostile inputs, %d parts" % n)


def extra_parts(drv, prop, tier, seed, extra_cov):
    out = []
    if prop == "C01" and tier == "thorough":
        rel = drv.build("release")
        if rel is None:
            raise drv.Inconclusive("release build of the harness failed")
        out.append(("same:release", drv.run_harness(rel, prop, tier, seed, tag="release")))
        out.append(("miri", miri_ops_part(drv, tier, seed, extra_cov)))
    if prop == "C16":
        out.append(("tsan", tsan_part(drv, tier, seed, extra_cov)))
        if tier == "thorough":
            out.append(("miri", miri_racer_part(drv, tier, seed, extra_cov)))
    return out


def setup(drv):
    """pre-build what the quick tier needs beyond the two harness profiles"""
    binary, err = _tsan_binary(drv)
    drv.log("build tsan racer: %s" % ("ok" if binary else "FAILED (C16 will run without ThreadSanitizer): " + err[-300:]))
    return True
