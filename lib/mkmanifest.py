#!/usr/bin/env python3
"""Regenerates /verif/MANIFEST.json from lib/propinfo.py (run after adding a check)."""
import json
import os
import sys

VERIF = os.path.dirname(os.path.dirname(os.path.abspath(__file__)))
sys.path.insert(0, os.path.join(VERIF, "lib"))
import propinfo  # noqa: E402

props = [json.loads(l) for l in open(os.path.join(VERIF, "properties.jsonl"))]
checks, na = [], []
for p in props:
    pid = p["id"]
    info = propinfo.INFO.get(pid)
    if not info or info.get("not_claimed"):
        na.append({"property_id": pid, "reason": (info or {}).get("not_claimed", "check not built yet in this session")})
        continue
    checks.append({
        "property_id": pid,
        "quick_cmd": "./check %s --tier quick" % pid,
        "thorough_cmd": "./check %s --tier thorough" % pid,
        "evidence_file": "/verif/evidence/%s.json" % pid,
        "replay_cmd_template": "./check %s --replay {path}" % pid,
        "engine": "harness",
        "level_claimed": {
            "category": "exploration",
            "text": info.get("level_text", "Runtime monitoring: the real library code built from /repo is executed on the "
                                           "generated and enumerated workload described in the evidence 'rule' and every call is "
                                           "judged by an independent oracle. Held = no observed execution refuted the property; "
                                           "finite sub-domains listed in exhaustive_parts were enumerated completely."),
            "design_ref": "DESIGN.md section 3, %s" % pid,
        },
        "level_note": "; ".join(info["assumptions"]),
        "technique": info.get("technique", "runtime monitoring: reference-model oracle over executions of the real code"),
    })
m = {
    "version": 1,
    "setup_cmd": "./check --setup",
    "hooks": {
        "guard": "precis_verif",
        "enable": "no hooks are needed: every property is observable at the public API (DESIGN.md section 0); checks build "
                  "/repo's crates unmodified as path dependencies of /verif/harness",
        "baseline_off_cmd": "cd /repo && cargo nextest run --workspace --no-fail-fast --offline",
        "source_commits": [],
        "add_only": True,
    },
    "engines": [{
        "name": "harness",
        "path": "/verif/harness",
        "serves_properties": [c["property_id"] for c in checks],
        "kind_free_text": "Rust monitor binary (path dependencies on /repo/precis-{core,profiles,tools}) driven by the "
                          "python driver /verif/check; plus Miri and ThreadSanitizer runs of the same crate for C01/C16",
    }],
    "checks": checks,
    "not_applicable": na,
    "notes": "All checks: exit 0 held / exit 1 + VIOLATION line / exit 2 inconclusive (never a VIOLATION line). "
             "Known findings are listed in /verif/KNOWN_FINDINGS.txt and matched by exact signature.",
}
with open(os.path.join(VERIF, "MANIFEST.json"), "w") as fh:
    json.dump(m, fh, indent=1)
print("MANIFEST.json: %d checks, %d not_applicable" % (len(checks), len(na)))
