#!/usr/bin/env python3
"""Apply a seeded change to /repo, run quick checks against it, undo it.

  lib/seedtest.py <patch.diff> [--tier quick|thorough] [C01 C07 ...]   (default: all 18 quick checks)

Evidence and replays of these runs go to a scratch directory, never to /verif/evidence.
Prints one line per check: caught (exit 1 + signatures) / silent (exit 0) / inconclusive (exit 2).
"""
import json
import os
import subprocess
import sys
import tempfile

VERIF = os.path.dirname(os.path.dirname(os.path.abspath(__file__)))
REPO = "/repo"


def main():
    args = sys.argv[1:]
    patch = os.path.abspath(args[0])
    tier = "quick"
    props = []
    i = 1
    while i < len(args):
        if args[i] == "--tier":
            tier = args[i + 1]
            i += 2
        else:
            props.append(args[i])
            i += 1
    if not props:
        props = ["C%02d" % k for k in range(1, 19)]
    st = subprocess.run(["git", "-C", REPO, "status", "--porcelain"], capture_output=True, text=True).stdout.strip()
    if st:
        print("refusing: /repo has uncommitted changes:\n" + st)
        return 3
    scratch = tempfile.mkdtemp(prefix="seedtest-")
    env = dict(os.environ)
    env["VERIF_EVIDENCE_DIR"] = os.path.join(scratch, "evidence")
    env["VERIF_REPLAYS_DIR"] = os.path.join(scratch, "replays")
    r = subprocess.run(["git", "-C", REPO, "apply", patch], capture_output=True, text=True)
    if r.returncode != 0:
        print("patch does not apply: " + r.stderr)
        return 3
    caught = []
    try:
        for p in props:
            r = subprocess.run([os.path.join(VERIF, "check"), p, "--tier", tier], cwd=VERIF, env=env, capture_output=True, text=True)
            sigs = []
            ev = os.path.join(env["VERIF_EVIDENCE_DIR"], p + ".json")
            if os.path.exists(ev):
                sigs = sorted(json.load(open(ev))["coverage"].get("new_violation_signatures", {}).items())
            state = {0: "silent", 1: "CAUGHT", 2: "inconclusive"}.get(r.returncode, "rc=%d" % r.returncode)
            if r.returncode == 1:
                caught.append(p)
            detail = ""
            if r.returncode == 1:
                first = [l for l in r.stdout.splitlines() if l.startswith("  ")][:2]
                detail = " | " + " | ".join(x.strip()[:230] for x in first)
            if r.returncode == 2:
                detail = " | " + " ".join(l for l in r.stdout.splitlines() if "INCONCLUSIVE" in l)[:300]
            print("%s %-12s %s%s" % (p, state, ", ".join("%s x%d" % (k, v) for k, v in sigs)[:200], detail), flush=True)
    finally:
        subprocess.run(["git", "-C", REPO, "checkout", "--", "."])
        subprocess.run(["git", "-C", REPO, "clean", "-fdq", "--", "precis-core/src", "precis-profiles/src", "precis-tools/src"])
    print("caught by: %s" % (" ".join(caught) or "NONE"))
    print("scratch: %s" % scratch)
    return 0


if __name__ == "__main__":
    sys.exit(main())
